"""Shared plumbing of the verification checks: scratch space, TLC runs,
evidence files, known findings, verdict lines."""
import atexit, json, os, re, shutil, subprocess, sys, tempfile, time, hashlib

VERIF = os.path.dirname(os.path.dirname(os.path.abspath(__file__)))
REPO = os.environ.get("VERIF_REPO", "/repo")
SPEC = os.path.join(VERIF, "spec")
T0 = time.time()

GOENV = dict(os.environ, GOFLAGS="-mod=mod", GOPROXY="off", GOSUMDB="off", GOTOOLCHAIN="local",
             CGO_ENABLED=os.environ.get("CGO_ENABLED", "1"))

_scratch = []

def scratch(prefix="verif."):
    d = tempfile.mkdtemp(prefix=prefix, dir="/var/tmp")
    _scratch.append(d)
    return d

@atexit.register
def _cleanup():
    for d in _scratch:
        shutil.rmtree(d, ignore_errors=True)

def seed():
    try:
        return int(os.environ.get("VERIF_SEED", "1"))
    except ValueError:
        return 1

def tier(argv_tier=None):
    t = argv_tier or os.environ.get("VERIF_TIER", "quick")
    return t if t in ("quick", "thorough") else "quick"

class Inconclusive(Exception):
    pass

def sh(cmd, cwd=None, env=None, timeout=None, check=False, stdin=None):
    p = subprocess.run(cmd, cwd=cwd, env=env or os.environ, timeout=timeout, stdout=subprocess.PIPE,
                       stderr=subprocess.STDOUT, text=True, input=stdin)
    if check and p.returncode != 0:
        raise Inconclusive("command failed (%d): %s\n%s" % (p.returncode, " ".join(cmd), p.stdout[-4000:]))
    return p.returncode, p.stdout

def cfg_text(spec, constants, invariants=(), properties=(), extra=()):
    """constants: dict name -> TLA+ text (or ('<-', name) substitutions)."""
    lines = ["SPECIFICATION %s" % spec, "CONSTANTS"]
    for k, v in constants.items():
        if isinstance(v, tuple):
            lines.append(" %s <- %s" % (k, v[1]))
        else:
            lines.append(" %s = %s" % (k, tla(v)))
    if invariants:
        lines.append("INVARIANTS " + " ".join(invariants))
    if properties:
        lines.append("PROPERTIES " + " ".join(properties))
    lines.extend(extra)
    return "\n".join(lines) + "\n"

def tla(v):
    if isinstance(v, bool):
        return "TRUE" if v else "FALSE"
    if isinstance(v, int):
        return str(v)
    if isinstance(v, str):
        return '"%s"' % v
    if isinstance(v, (set, frozenset, list)):
        return "{" + ", ".join(tla(x) for x in sorted(v, key=str)) + "}"
    raise TypeError(v)

TLC_STATS = re.compile(r"(\d+) states generated, (\d+) distinct states found, (\d+) states left on queue")

def run_tlc(spec_dir, module, cfg, workers=8, timeout=600, extra_args=(), files=None, dfs=False, heap=None):
    """Runs TLC in a scratch copy of spec_dir.  Returns dict(out, generated, distinct, depth,
    violated, error, wall).  Raises Inconclusive on timeout / crash."""
    d = scratch("tlc.")
    for f in os.listdir(spec_dir):
        if f.endswith(".tla"):
            shutil.copy(os.path.join(spec_dir, f), d)
    with open(os.path.join(d, "_run.cfg"), "w") as fh:
        fh.write(cfg)
    for name, path in (files or {}).items():
        shutil.copy(path, os.path.join(d, name))
    env = dict(os.environ)
    jopts = env.get("JAVA_TOOL_OPTIONS", "")
    if dfs:
        jopts += " -Dtlc2.tool.queue.IStateQueue=StateDeque"
    jopts += " -Xss256m"
    # the JVM default (a quarter of the machine) times several TLC runs side by side invites the OOM killer
    jopts += " -Xmx%s" % (heap or os.environ.get("VERIF_TLC_HEAP", "10g"))
    env["JAVA_TOOL_OPTIONS"] = jopts.strip()
    cmd = ["timeout", str(timeout), "tlc", "-workers", str(workers), "-metadir", os.path.join(d, "meta"),
           "-config", "_run.cfg"] + list(extra_args) + [module + ".tla"]
    t = time.time()
    rc, out = sh(cmd, cwd=d, env=env)
    wall = time.time() - t
    res = dict(out=out, wall=wall, rc=rc, generated=0, distinct=0, depth=0, violated=None, error=None, dir=d)
    m = None
    for m in TLC_STATS.finditer(out):
        pass
    if m:
        res["generated"], res["distinct"] = int(m.group(1)), int(m.group(2))
    m = re.search(r"depth of the complete state graph search is (\d+)", out)
    if m:
        res["depth"] = int(m.group(1))
    m = re.search(r"Error: Invariant (\w+) is violated", out)
    if m:
        res["violated"] = m.group(1)
    m = re.search(r"Error: Action property (\w+) is violated", out) or re.search(r"Error: Temporal properties were violated", out)
    if m and not res["violated"]:
        res["violated"] = m.group(1) if m.groups() else "temporal"
    if "Error: Deadlock reached" in out:
        res["violated"] = res["violated"] or "Deadlock"
    if rc == 124:
        res["error"] = "timeout"
    elif "TLC threw an unexpected exception" in out or "ConfigFileException" in out or "Parsing or semantic analysis failed" in out:
        res["error"] = "tlc-exception"
    elif res["violated"] is None and "Error:" in out and "Model checking completed. No error" not in out and "Finished in" not in out:
        res["error"] = "tlc-error"
    elif rc not in (0, 12, 13, 11, 10) and res["violated"] is None and "Finished in" not in out:
        res["error"] = "tlc-exit-%d" % rc
    return res

def drop_scratch(d):
    shutil.rmtree(d, ignore_errors=True)
    if d in _scratch:
        _scratch.remove(d)

# ---------------------------------------------------------------- evidence / verdict

def load_known():
    p = os.path.join(VERIF, "KNOWN_FINDINGS.json")
    if not os.path.exists(p):
        return []
    return json.load(open(p)).get("findings", [])

def write_evidence(pid, tier_, level, coverage, assumptions, violations):
    if os.environ.get("VERIF_NO_EVIDENCE"):      # runs against scratch copies (seeded changes) must not touch evidence/
        return
    os.makedirs(os.path.join(VERIF, "evidence"), exist_ok=True)
    ev = dict(property_id=pid, tier=tier_, seed=seed(), level=level, coverage=coverage,
              assumptions=assumptions, wall_s=round(time.time() - T0, 1), violations=violations)
    with open(os.path.join(VERIF, "evidence", pid + ".json"), "w") as fh:
        json.dump(ev, fh, indent=1, default=str)

def save_replay(pid, obj):
    d = os.path.join(os.environ.get("VERIF_REPLAY_DIR") or os.path.join(VERIF, "replays"), pid)
    os.makedirs(d, exist_ok=True)
    raw = json.dumps(obj, sort_keys=True, default=str)
    name = hashlib.sha1(raw.encode()).hexdigest()[:12] + ".json"
    path = os.path.join(d, name)
    with open(path, "w") as fh:
        fh.write(json.dumps(obj, indent=1, default=str))
    return path

def verdict(pid, found):
    """found: list of dict(signature=str, what=str, replay=obj).  Matches each against
    KNOWN_FINDINGS (status open); prints KNOWN-FINDING / VIOLATION lines; returns exit code."""
    known = [k for k in load_known() if k.get("property") == pid and k.get("status") == "open"]
    rc = 0
    seen_known = set()
    reported = set()
    for f in found:
        hit = None
        for k in known:
            if re.search(k["signature"], f["signature"]):
                hit = k
                break
        if hit:
            if hit["id"] not in seen_known:
                seen_known.add(hit["id"])
                print("KNOWN-FINDING: property=%s %s" % (pid, hit["what"]))
            continue
        if f["signature"] in reported:
            continue
        reported.add(f["signature"])
        path = save_replay(pid, f.get("replay", f))
        print("VIOLATION property=%s replay=%s" % (pid, path))
        print("  what: %s" % f["what"])
        rc = 1
        if len(reported) >= int(os.environ.get("VERIF_MAX_REPORT", "5")):
            break
    return rc
