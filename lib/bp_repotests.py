"""The repository's own batch-processor tests as a source of executions: the package is built with the `verif` tag, every
test runs with the environment tracer (VERIF_TRACE_FILE) and BPHookObs.tla judges every step of every test."""
import json, os, re, shutil
from concurrent.futures import ThreadPoolExecutor
import common as C
import bp

PKG = "collector/processor/concurrentbatchprocessor"
# Every clause of BPHookObs rests on WHERE a hook sits in the code (what "FlushDone" or "SemAcquired" means), so a
# harmless restructuring could move its meaning: none of them is a verdict.  They are reported as drift of the repository's
# own test executions from the hook-level accounting, next to the number of tests and events that were explained.
STATEMENT = set()

def build():
    d = C.scratch("bprt.")
    binp = os.path.join(d, "pkg.test")
    rc, out = C.sh(["go", "test", "-tags", "verif", "-vet=off", "-c", "-o", binp, "."], cwd=os.path.join(C.REPO, PKG), env=C.GOENV, timeout=900)
    if rc != 0:
        raise C.Inconclusive("building the package's tests with the verif tag failed:\n" + out[-3000:])
    rc, out = C.sh([binp, "-test.list", "."], cwd=os.path.join(C.REPO, PKG), env=C.GOENV, timeout=120)
    tests = [t for t in out.split() if t.startswith("Test")]
    return d, binp, tests

def _norm(path, tr, name, out):
    n = 0
    out.write(json.dumps({"tr": tr, "seq": 0, "ev": "Begin", "owner": 0, "ctx": 0, "tok": 0, "n": [0] * 8, "x": name}) + "\n")
    if not os.path.exists(path):
        return 0
    with open(path) as fh:
        for line in fh:
            try:
                e = json.loads(line)
            except ValueError:
                continue
            nn = [int(v) for v in (e.get("n") or [])][:8]
            nn += [0] * (8 - len(nn))
            # TLC integers are 32 bit
            nn = [max(-2147483647, min(2147483647, v)) for v in nn]
            out.write(json.dumps({"tr": tr, "seq": e["seq"], "ev": e["ev"], "owner": e.get("owner", 0), "ctx": e.get("ctx", 0),
                                  "tok": e.get("tok", 0), "n": nn, "x": ""}) + "\n")
            n += 1
    return n

def run(only=None, timeout=900):
    """Returns dict(tests, events, failed_tests, violations=[(prop, clause, test, seq)], drift=[...])."""
    d, binp, tests = build()
    if only:
        tests = [t for t in tests if t in only]
    cwd = os.path.join(C.REPO, PKG)
    def one(k):
        t = tests[k]
        tf = os.path.join(d, "t%d.ndjson" % k)
        env = dict(C.GOENV, VERIF_TRACE_FILE=tf)
        rc, out = C.sh([binp, "-test.run", "^%s$" % t, "-test.count=1", "-test.timeout", "300s"], cwd=cwd, env=env, timeout=400)
        return k, rc, out[-600:]
    with ThreadPoolExecutor(max_workers=8) as pool:
        rs = list(pool.map(one, range(len(tests))))
    merged = os.path.join(d, "hooks.ndjson")
    nev = 0
    with open(merged, "w") as out:
        for k, rc, _ in rs:
            nev += _norm(os.path.join(d, "t%d.ndjson" % k), k + 1, tests[k], out)
    res = {"tests": len(tests), "events": nev, "failed_tests": [tests[k] for k, rc, _ in rs if rc != 0], "violations": [], "drift": []}
    if nev:
        cfg = 'SPECIFICATION Spec\nCONSTANT TraceFile = "hooks.ndjson"\nINVARIANT Report\nCHECK_DEADLOCK FALSE\n'
        r = C.run_tlc(bp.SPEC, "BPHookObs", cfg, workers=1, timeout=timeout, files={"hooks.ndjson": merged})
        m = re.search(r'<<"BPHOOKOBS-RESULT", (\d+), "(.*)">>', r["out"])
        C.drop_scratch(r["dir"])
        if not m:
            C.drop_scratch(d)
            raise C.Inconclusive("BPHookObs did not finish:\n" + r["out"][-3000:])
        for tr, prop, clause, seq in json.loads(m.group(2).encode().decode("unicode_escape")):
            (res["violations"] if prop in STATEMENT else res["drift"]).append((prop, clause, tests[tr - 1], seq))
    C.drop_scratch(d)
    return res

if __name__ == "__main__":
    import sys
    print(json.dumps(run(only=set(sys.argv[1:]) or None), indent=1)[:4000])
