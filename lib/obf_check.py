"""Decides C17 (obfuscation processor: structure preserved, deterministic injection on strings).
See DESIGN.md section 7 "C17".

  spec/obf/Obfuscation.tla  the abstract case space + the algorithm + Expected, checked and enumerated by TLC
  harness/obf               concretises every case for traces / logs / metrics and all attribute sites, runs the
                            REAL processor (public factory, recording next consumer), records an NDJSON trace
  spec/obf/ObfObs.tla       the monitor TLC runs over the trace; the only source of C17 violations
"""
import hashlib, json, os, random, re, shutil, time
from concurrent.futures import ThreadPoolExecutor
import common as C

SPEC = os.path.join(C.SPEC, "obf")
HARNESS = os.path.join(C.VERIF, "harness", "obf")
DEFAULT_PROC = "/repo/collector/processor/obfuscationprocessor"

IMPL_INVS = ["ShapePreserved", "ImplConforms", "LengthPreserved", "UntargetedUnchanged", "FunctionalInjective",
             "ExpectedSane"]
MUTANTS = {"MutDropUnlisted": "ShapePreserved", "MutSkipSlice": "ImplConforms",
           "MutCollide": "FunctionalInjective", "MutGrow": "LengthPreserved"}

LISTED = ["user.id", "k", "пароль", "card number", "http.url", "L6"]
UNLISTED = ["http.method", "u", "région", "status code", "net.peer.name", "U6"]


def proc_dir():
    """The processor source the harness is built against (VERIF_OBF_DIR lets a scratch copy stand in)."""
    d = os.environ.get("VERIF_OBF_DIR")
    if d:
        return d
    return os.path.join(C.REPO, "collector/processor/obfuscationprocessor")


# ------------------------------------------------------------------ TLC on the impl spec

def impl_cfg(tier_, mutant=None, emit=True):
    cst = {"Tier": tier_, "MutDropUnlisted": False, "MutSkipSlice": False, "MutCollide": False, "MutGrow": False}
    if mutant:
        cst[mutant] = True
    return C.cfg_text("Spec", cst, IMPL_INVS + (["Emit"] if emit else []), (), ["CHECK_DEADLOCK FALSE"])


def enumerate_cases(tier_, timeout):
    """Exhaustive TLC run of Obfuscation.tla: checks the invariants on every tree of the grammar and
    returns the enumerated cases (one per initial state)."""
    r = C.run_tlc(SPEC, "Obfuscation", impl_cfg(tier_), workers=1, timeout=timeout)
    cases = []
    for m in re.finditer(r'^"CASE (.*)"$', r["out"], re.M):
        try:
            cases.append(json.loads(m.group(1).encode().decode("unicode_escape")))
        except ValueError:
            pass
    m = re.search(r"Finished computing initial states: (\d+) distinct state", r["out"])
    r["initial"] = int(m.group(1)) if m else 0
    r["out"] = "\n".join(l for l in r["out"].splitlines() if not l.startswith('"CASE '))
    C.drop_scratch(r["dir"])
    return cases, r


def run_mutant(name):
    r = C.run_tlc(SPEC, "Obfuscation", impl_cfg("quick", mutant=name, emit=False), workers=1, timeout=300)
    C.drop_scratch(r["dir"])
    return name, r["violated"], r["error"]


# ------------------------------------------------------------------ the real processor

def build_harness():
    """Compiles the harness against the processor's working tree (every run)."""
    d = C.scratch("obfbin.")
    mod = os.path.join(d, "mod")
    shutil.copytree(HARNESS, mod)
    src = proc_dir()
    if not os.path.isfile(os.path.join(src, "processor.go")):
        raise C.Inconclusive("no obfuscation processor at %s" % src)
    gomod = open(os.path.join(mod, "go.mod")).read().replace("=> " + DEFAULT_PROC, "=> " + src)
    open(os.path.join(mod, "go.mod"), "w").write(gomod)
    shutil.copy(os.path.join(src, "go.sum"), os.path.join(mod, "go.sum"))
    binp = os.path.join(d, "obf-harness")
    rc, out = C.sh(["go", "build", "-o", binp, "."], cwd=mod, env=C.GOENV, timeout=900)
    if rc != 0:
        raise C.Inconclusive("harness build failed:\n" + out[-4000:])
    return binp


def make_plan(cases, seed, nrand, per_instance=8):
    """Processor instances: TLC cases of one mode grouped per signal, several calls per instance, plus
    seeded random documents.  Everything needed to re-run an instance is in its plan entry."""
    rng = random.Random(seed * 104729 + 17)
    instances = []

    def new_instance(signal, mode, listed=None):
        l, u = LISTED[:], UNLISTED[:]
        rng.shuffle(l)
        rng.shuffle(u)
        inst = dict(inst=len(instances) + 1, signal=signal, mode=mode, listed=l if listed is None else listed,
                    unlisted=u, iseed=rng.randrange(1, 1 << 31), cases=[])
        instances.append(inst)
        return inst

    for mode in ("all", "list"):
        mine = [c for c in cases if c["mode"] == mode]
        for signal in ("traces", "logs", "metrics"):
            order = list(range(len(mine)))
            rng.shuffle(order)
            for g in range(0, len(order), per_instance):
                inst = new_instance(signal, mode)
                for k in order[g:g + per_instance]:
                    inst["cases"].append(dict(id="tlc/%s/%d" % (mode, mine[k]["no"]), attrs=mine[k]["attrs"],
                                              cseed=rng.randrange(1, 1 << 31)))
    # long-lived instances: thousands of distinct strings through one processor, early ones coming back at the end
    # ("for the lifetime of the instance": whatever an instance remembers about strings must stay right when it is full)
    for signal, mode in (("logs", "all"), ("traces", "list")):
        inst = new_instance(signal, mode)
        per = 1500
        for k in range(4):
            inst["cases"].append(dict(id="bulk/%s/%d" % (signal, k), bulk=per, base=k * per, cseed=rng.randrange(1, 1 << 31)))
        inst["cases"].append(dict(id="bulk/%s/again" % signal, bulk=120, base=0, cseed=rng.randrange(1, 1 << 31)))
        inst["cases"].append(dict(id="bulk/%s/tail" % signal, bulk=120, base=4 * per - 60, cseed=rng.randrange(1, 1 << 31)))
    signals = ("traces", "logs", "metrics")
    n = 0
    while n < nrand:
        j = len(instances)
        mode = ("all", "list", "list")[j % 3]
        listed = None
        if mode == "list" and j % 13 == 0:
            listed = []                      # encrypt_all = false and nothing listed: nothing is targeted
        elif mode == "list" and j % 5 == 0:
            listed = LISTED[:1]
        inst = new_instance(signals[(j // 3) % 3], mode, listed)
        for _ in range(min(6, nrand - n)):
            s = rng.randrange(1, 1 << 31)
            inst["cases"].append(dict(id="seeded/%d/%d" % (seed, n), rand=s, cseed=s))
            n += 1
    return instances


def run_harness(binp, instances, timeout):
    d = C.scratch("obftr.")
    planp = os.path.join(d, "plan.json")
    trp = os.path.join(d, "trace.ndjson")
    json.dump(dict(instances=instances), open(planp, "w"))
    rc, out = C.sh(["timeout", str(timeout), binp, "-plan", planp, "-out", trp], cwd=d, env=C.GOENV)
    if rc != 0:
        raise C.Inconclusive("harness run failed (%d):\n%s" % (rc, out[-3000:]))
    return trp


# ------------------------------------------------------------------ the monitor

OBS_CFG = 'SPECIFICATION Spec\nCONSTANT TraceFile = "trace.ndjson"\nINVARIANT Report\nCHECK_DEADLOCK FALSE\n'


def run_obs_one(trace, timeout):
    r = C.run_tlc(SPEC, "ObfObs", OBS_CFG, workers=1, timeout=timeout, files={"trace.ndjson": trace})
    m = re.search(r'^"OBFOBS-RESULT (.*)"$', r["out"], re.M)
    C.drop_scratch(r["dir"])
    if not m:
        raise C.Inconclusive("ObfObs did not finish:\n" + r["out"][-3000:])
    res = json.loads(m.group(1).encode().decode("unicode_escape"))
    return res["n"], res["viol"], res["detail"], r["distinct"]


def run_obs(trace, shards, timeout):
    """Runs the monitor; the trace is cut at instance boundaries so several TLC processes share the work."""
    lines = open(trace).read().splitlines()
    begins = [k for k, l in enumerate(lines) if l.startswith('{"ev":"Begin"')]
    if not begins:
        raise C.Inconclusive("empty trace")
    shards = max(1, min(shards, len(begins)))
    cuts = [begins[(len(begins) * s) // shards] for s in range(shards)] + [len(lines)]
    d = C.scratch("obfsh.")
    parts = []
    for s in range(shards):
        if cuts[s] == cuts[s + 1]:
            continue
        p = os.path.join(d, "part%d.ndjson" % s)
        open(p, "w").write("\n".join(lines[cuts[s]:cuts[s + 1]]) + "\n")
        parts.append(p)
    with ThreadPoolExecutor(max_workers=len(parts)) as pool:
        res = list(pool.map(lambda p: run_obs_one(p, timeout), parts))
    nev = sum(r[0] for r in res)
    viol = [v for r in res for v in r[1]]
    detail = [x for r in res for x in r[2]]
    C.drop_scratch(d)
    return nev, viol, detail, lines


# ------------------------------------------------------------------ reading the trace (evidence only, no judgement)

def _untag(t):
    """Readable rendering of a tagged string (messages and evidence only)."""
    if t[:2] in ("s:", "x:"):
        try:
            raw = bytes.fromhex(t[2:])
        except ValueError:
            return t
        try:
            txt = raw.decode("utf-8")
            if t[0] == "s" and all(c.isprintable() for c in txt):
                return "%s'%s'" % (t[:2], txt)
        except UnicodeDecodeError:
            pass
        return t[:2] + "hex(" + t[2:] + ")"
    return t


def _shape(v, listed):
    k = v["k"]
    if k == "L":
        return ("L",) + tuple(_shape(e, listed) for e in v["e"])
    if k == "M":
        return ("M",) + tuple((e["key"] in listed, _shape(e["v"], listed)) for e in v["e"])
    if k in ("s", "x"):
        raw = bytes.fromhex(v["v"][2:])
        return (k, min(v["n"], 2), any(b > 127 for b in raw))
    return (k,)


def _node_shape(n, listed):
    return (n["ty"], tuple((e["key"] in listed, _shape(e["v"], listed)) for e in n["a"]),
            tuple(_node_shape(c, listed) for c in n["c"]))


def _count_attrs(n):
    return len(n["a"]) + sum(_count_attrs(c) for c in n["c"])


def _render_attrs(entries):
    def val(v):
        if v["k"] == "L":
            return [val(e) for e in v["e"]]
        if v["k"] == "M":
            return _render_attrs(v["e"])
        return _untag(v["v"])
    return [[_untag(e["key"]), val(e["v"])] for e in entries]


def _first_site(n):
    """First node with attributes (for samples)."""
    if n["a"]:
        return n
    for c in n["c"]:
        s = _first_site(c)
        if s:
            return s
    return None


def trace_stats(lines):
    """evaluations, distinct non-trivial input classes (measured), per-signal / per-mode counts."""
    sigs = set()
    counts = {}
    nproc = 0
    listed = set()
    for l in lines:
        e = json.loads(l)
        if e["ev"] == "Begin":
            listed = set(e["listed"])
            continue
        if e["ev"] != "Process":
            continue
        nproc += 1
        key = "%s/%s" % (e["signal"], e["mode"])
        counts[key] = counts.get(key, 0) + 1
        if _count_attrs(e["in"]) == 0 or e["in"] == e["out"]:
            continue                          # trivial: no attribute at all, or nothing was rewritten
        sigs.add(hashlib.sha1(repr((e["signal"], e["mode"], _node_shape(e["in"], listed))).encode()).hexdigest())
    return nproc, len(sigs), counts


def sample_of(line, inst):
    e = json.loads(line)
    si, so = _first_site(e["in"]), _first_site(e["out"])
    return dict(case=e["case"], signal=e["signal"], mode=e["mode"], listed_keys=inst["listed"] if e["mode"] == "list" else "(all)",
                site=si["ty"] if si else None, attributes_in=_render_attrs(si["a"])[:6] if si else [],
                attributes_out=_render_attrs(so["a"])[:6] if so else [], outcome=e["outcome"])


def describe(item):
    if not item:
        return ""
    if item["c"] == "shape":
        return "%s: %s (in %s, out %s)" % (item["a"], item["kind"], item["na"], item["nb"])
    return "%s -> %s" % (_untag(item["a"]), _untag(item["b"]))


# ------------------------------------------------------------------ verdict

def collect(viol, detail, lines, instances, pid):
    """One finding per (clause, mode, signal): the earliest event, with the instance plan cut after the
    offending call as the replay."""
    by_inst = {i["inst"]: i for i in instances}
    why = {}
    for seq, clause, item in detail:
        why.setdefault((seq, clause), item)
    first = {}
    for tr, prop, clause, seq in sorted(viol, key=lambda v: v[3]):
        if prop != pid:
            continue
        inst = by_inst[tr]
        key = (clause, inst["mode"], inst["signal"])
        first.setdefault(key, []).append((tr, seq))
    found = []
    for (clause, mode, signal), hits in sorted(first.items()):
        tr, seq = hits[0]
        # prefer a hit the monitor kept a detail item for
        for t, s in hits:
            if (s, clause) in why:
                tr, seq = t, s
                break
        inst = by_inst[tr]
        ev = json.loads(lines[seq - 1])
        ncase = [c["id"] for c in inst["cases"]].index(ev["case"]) + 1
        item = why.get((seq, clause))
        cut = dict(inst, inst=1, cases=inst["cases"][:ncase])
        found.append(dict(
            signature="%s mode=%s signal=%s" % (clause, mode, signal),
            what="%s: %s violated by the %s processor in %s mode, case %s (call %d of its instance, event %d; %d events of this kind)%s"
                 % (pid, clause, signal, "encrypt_all" if mode == "all" else "encrypt_attributes", ev["case"], ncase, seq,
                    len(hits), (": " + describe(item)) if item else
                    (": " + ev["msg"].splitlines()[0][:200]) if ev.get("msg") else ""),
            # only what is a function of the plan goes into the replay file (the key of an instance is random,
            # so substitutes differ from run to run): the same finding keeps the same file name
            replay=dict(property=pid, clause=clause, signal=signal, mode=mode, instance=cut, event_case=ev["case"],
                        detail=(item if item and item["c"] == "shape" else dict(original=item["a"]) if item else None),
                        input=ev["in"])))
    return found


def replay_run(pid, path):
    obj = json.load(open(path))
    inst = dict(obj["instance"], inst=1)
    binp = build_harness()
    trace = run_harness(binp, [inst], 300)
    nev, viol, detail, lines = run_obs(trace, 1, 600)
    mine = [v for v in viol if v[1] == pid]
    why = {(s, c): it for s, c, it in detail}
    for tr, prop, clause, seq in sorted(mine, key=lambda v: (v[2] != obj.get("clause"), v[3])):
        print("VIOLATION property=%s replay=%s" % (pid, path))
        print("  what: %s at event %d (case %s) %s" % (clause, seq, json.loads(lines[seq - 1])["case"], describe(why.get((seq, clause)))))
    if not mine:
        print("replay: no violation of %s reproduced (%d events judged)" % (pid, nev))
    return 1 if mine else 0


def run(pid, tier_, replay=None):
    if replay:
        return replay_run(pid, replay)
    seed = C.seed()
    quick = tier_ == "quick"
    pool = ThreadPoolExecutor(max_workers=6)

    # 1. the harness is built while TLC works
    bin_f = pool.submit(build_harness)
    # 2. TLC: invariants of the impl spec on every tree of the grammar + enumeration of the cases
    enum_f = pool.submit(enumerate_cases, tier_, 300 if quick else 1800)
    # 3. non-vacuity of those invariants: every mutant switch must falsify its invariant
    mut_f = [pool.submit(run_mutant, m) for m in MUTANTS]

    cases, mc = enum_f.result()
    if mc["error"]:
        raise C.Inconclusive("TLC on Obfuscation.tla: %s\n%s" % (mc["error"], mc["out"][-2000:]))
    model_issues = []
    if mc["violated"]:
        model_issues.append("Obfuscation.tla: invariant %s violated" % mc["violated"])
    if not cases or (not mc["violated"] and len(cases) != mc["initial"]):
        raise C.Inconclusive("case enumeration incomplete: %d cases read, %d initial states\n%s"
                             % (len(cases), mc["initial"], mc["out"][-1500:]))
    for n, c in enumerate(cases):
        c["no"] = n + 1

    # 4. the real processor on every case (x 3 signals, all attribute sites) and on seeded documents
    nrand = 300 if quick else 10000
    instances = make_plan(cases, seed, nrand)
    binp = bin_f.result()
    trace = run_harness(binp, instances, 600 if quick else 3000)

    # 5. the monitor judges the trace
    nev, viol, detail, lines = run_obs(trace, 8 if quick else 12, 900 if quick else 5000)
    nproc, distinct, counts = trace_stats(lines)

    killed = {}
    for f in mut_f:
        name, violated, err = f.result()
        killed[name] = violated
        if violated != MUTANTS[name]:
            model_issues.append("mutant %s: expected %s to fail, got %s %s" % (name, MUTANTS[name], violated, err or ""))
    pool.shutdown()

    found = collect(viol, detail, lines, instances, pid)
    by_inst = {i["inst"]: i for i in instances}
    samples = []
    proc_lines = [k for k, l in enumerate(lines) if l.startswith('{"ev":"Process"')]
    for k in (proc_lines[:1] + proc_lines[len(proc_lines) // 2:len(proc_lines) // 2 + 1] + proc_lines[-1:]):
        samples.append(sample_of(lines[k], by_inst[json.loads(lines[k])["tr"]]))
    clauses = {}
    for v in viol:
        clauses[v[2]] = clauses.get(v[2], 0) + 1
    cov = dict(
        evaluations=nproc, distinct_nontrivial=distinct,
        rule="one evaluation = one Consume call of the real processor judged by ObfObs.tla; distinct = different "
             "(signal, mode, input shape) where the shape keeps every container, every attribute's key class "
             "(listed / unlisted), value kind, nesting and string class (empty / one byte / longer, ASCII or not), "
             "counted only when the input has attributes and the output differs from the input",
        samples=samples, states=mc["distinct"], transitions=mc["generated"], traces_validated_against_impl=len(instances),
        tlc_cases=len(cases), tlc_cases_by_mode={m: sum(1 for c in cases if c["mode"] == m) for m in ("all", "list")},
        seeded_documents=nrand, processor_instances=len(instances), events_judged=nev, calls_by_signal_mode=counts,
        impl_spec=dict(module="Obfuscation.tla", tier=tier_, invariants=IMPL_INVS, violated=mc["violated"],
                       depth=mc["depth"], wall_s=round(mc["wall"], 1)),
        spec_mutants_killed=killed, clauses_violated=clauses, model_issues=model_issues,
        processor_dir=proc_dir(), exhaustive=False, abstract_case_space_enumerated_completely=not mc["violated"],
    )
    assumptions = [
        "the abstract grammar is enumerated completely only within its bounds (<= 3 attributes per map, nesting depth <= 2, "
        "five string classes); each abstract string class is concretised by one seeded string per case",
        "injectivity / functionality of the cipher are judged on the strings that occur (all calls of one instance), not proved "
        "for the third-party Feistel implementation",
        "attribute keys, name-like fields and paths mixing listed and unlisted keys are accepted either unchanged or consistently "
        "substituted (the statement does not pin them down); an unchanged targeted string is reported only as Functional "
        "(replaced elsewhere) or Targeted (two distinct strings of >= 4 bytes unchanged in one instance)",
        "violations are reported only from traces recorded from the real processor (ObfObs.tla)",
    ]
    rc = C.verdict(pid, found)
    for mi in model_issues:
        print("MODEL-ISSUE (not a verdict): %s" % mi)
    C.write_evidence(pid, tier_, "exploration", cov, assumptions, len(found))
    print("%s (obfuscation: structure preserved, deterministic injection): %d calls of the real processor judged "
          "(%d TLC cases x 3 signals + %d seeded documents, %d instances), %d distinct non-trivial; "
          "TLC %d distinct states / %d generated; %d violating events, %d findings"
          % (pid, nproc, len(cases), nrand, len(instances), distinct, mc["distinct"], mc["generated"], len(viol), len(found)))
    if model_issues and rc == 0:
        return 2
    return rc
