"""Diagnostic only (never decides a verdict): shows where two dumped batches differ after the
normalisations of RoundTrip.tla, to help a human read a NotEquivalent violation."""
import json, sys
def nv(v, nested):
    t = v[0]
    if t == "x": return ("u","","") if nested and v[2]=="0" else tuple(v)
    if t == "d":
        if v[2]=="nan": return ("d","nan","nan")
        if v[2]=="negzero": return ("d","0000000000000000","num")
        return tuple(v)
    if t == "l": return ("l", tuple(nv(x, True) for x in v[1]), "")
    if t == "m": return ("m", tuple(sorted((k, nv(x, True)) for k, x in v[1])), "")
    return tuple(v)
def na(a): return tuple(sorted((k, nv(v, False)) for k, v in a if k != "=" and v[0] != "u"))
def nn(n):
    return (tuple(nv(x, False) for x in n["f"]), na(n["a"]), tuple(nv(x, False) for x in n["v"]),
            tuple(tuple(nv(x, False) for x in q) for q in n["q"]),
            tuple(sorted((name, tuple(sorted(map(nn, kids), key=repr))) for name, kids in n["k"])))
def diff(a, b):
    from collections import Counter
    ca, cb = Counter(map(nn, a)), Counter(map(nn, b))
    only_a = list((ca - cb).elements()); only_b = list((cb - ca).elements())
    return only_a, only_b
def first_difference(x, y, path=""):
    if type(x) != type(y) or (isinstance(x, tuple) and len(x) != len(y)):
        return path, x, y
    if isinstance(x, tuple):
        for i, (p, q) in enumerate(zip(x, y)):
            r = first_difference(p, q, path + "/%d" % i)
            if r: return r
        return None
    return None if x == y else (path, x, y)
if __name__ == "__main__":
    o = json.load(open(sys.argv[1]))
    evs = o["events"]
    enc = [e for e in evs if e["ev"] == "Encode"][-1]; dec = [e for e in evs if e["ev"] == "Decode"][-1]
    oa, ob = diff(enc["in"], dec["out"])
    print("only in input: %d, only in output: %d" % (len(oa), len(ob)))
    if oa and ob:
        best = None
        for y in ob:
            r = first_difference(oa[0], y)
            if best is None or (r and len(r[0]) > len(best[0])): best = r
        print("first difference at", best[0]); print("  in :", str(best[1])[:300]); print("  out:", str(best[2])[:300])

def _desc(x):
    if isinstance(x, tuple) and len(x) == 3 and isinstance(x[0], str) and len(x[0]) == 1:
        return x[0] + ("(%s)" % x[2] if x[2] and x[0] in "d" else "") + ("=0" if x[0] in "id" and x[1] in ("0", "0000000000000000") else "") + ('=""' if x[0] == "s" and x[1] == "=" else "")
    return type(x).__name__

def node_diff(x, y, path):
    """x, y normalised nodes; returns a short class string for the first difference."""
    names = ["f", "a", "v", "q", "k"]
    for idx, nm in enumerate(names):
        p, q = x[idx], y[idx]
        if p == q:
            continue
        if nm in ("f", "v"):
            if len(p) != len(q):
                return "%s%s len %d->%d" % (path, nm, len(p), len(q))
            for i, (a, b) in enumerate(zip(p, q)):
                if a != b:
                    return "%s%s[%d] %s->%s" % (path, nm, i, _desc(a), _desc(b))
        if nm == "a":
            da, db = dict(p), dict(q)
            for k in sorted(set(da) | set(db)):
                if da.get(k) != db.get(k):
                    return "%sattr %s->%s" % (path, _desc(da[k]) if k in da else "absent", _desc(db[k]) if k in db else "absent")
        if nm == "q":
            for i, (a, b) in enumerate(zip(p, q)):
                if a != b:
                    return "%sq[%d] len %d->%d" % (path, i, len(a), len(b)) if len(a) != len(b) else "%sq[%d] values" % (path, i)
            return "%sq count" % path
        if nm == "k":
            for (n1, k1), (n2, k2) in zip(p, q):
                if k1 != k2:
                    if len(k1) != len(k2):
                        return "%s%s count %d->%d" % (path, n1, len(k1), len(k2))
                    for a, b in zip(k1, k2):
                        if a != b:
                            return node_diff(a, b, path + n1 + ".")
    return path + "?"

def classify(inp, out):
    try:
        oa, ob = diff(inp, out)
        if len(oa) != len(ob):
            return "items %d->%d" % (len(oa), len(ob))
        if not oa:
            return "same-after-python-norm"
        # pair the first input-only item with the closest output-only item
        best = None
        for y in ob:
            c = node_diff(oa[0], y, "")
            if best is None or len(c) > len(best):
                best = c
        return best
    except Exception as e:  # diagnostic only
        return "diag-error %s" % e
