"""OTAP producer/consumer family: plans (stream histories) for harness/otap, sharded execution,
OtapObs.tla as judge."""
import json, os, random, re, shutil, time
from concurrent.futures import ThreadPoolExecutor
import common as C

SPEC = os.path.join(C.SPEC, "otap")
HARNESS = os.path.join(C.VERIF, "harness", "otap")

SIG_PROP = {"traces": "C01", "logs": "C02", "metrics": "C03"}
ORDER_SPAN = ["", "name,trace_id", "trace_id,name", "name,start_time", "name,trace_id,start_time",
              "start_time,trace_id,name", "start_time,name,trace_id"]
ATTRS16 = ["", "parent_id,key,value", "type,key,parent_id,value", "type,key,value,parent_id"]
ATTRS32 = ["", "type,parent_id,key,value", "type,key,parent_id,value", "type,key,value,parent_id", "key,value,parent_id"]
DICTS = ["", "none", "8", "16", "32", "64"]

def rand_batch(rng, rich=None, twins=None, guarded=True, size="small"):
    mr, ms, mi = {"small": (2, 2, 3), "medium": (3, 3, 8), "large": (4, 4, 40)}[size]
    return {"gen": "rand", "seed": rng.randint(1, 1 << 40), "rich": rng.choice([0, 1, 1, 2]) if rich is None else rich,
            "twins": (rng.random() < 0.25) if twins is None else twins, "guarded": guarded,
            "maxRes": mr, "maxScope": ms, "maxItems": mi}

def rand_stream(rng, sid, signal, props, opts=None, nb=None, guarded=True, size=None):
    nb = nb or rng.choice([1, 2, 3, 3, 4, 6])
    pattern = rng.choice(["mixed", "grow", "shrink", "sparse-then-rich", "rich"])
    batches = []
    for k in range(nb):
        rich = {"mixed": None, "grow": min(2, k), "shrink": max(0, 2 - k), "sparse-then-rich": 0 if k < nb - 1 else 2,
                "rich": 2}[pattern]
        b = rand_batch(rng, rich=rich, guarded=guarded, size=size or rng.choice(["small", "small", "medium"]))
        batches.append(b)
    if rng.random() < 0.2 and nb > 1:
        batches[-1] = dict(batches[-1], resend=1)
    if rng.random() < 0.25 and nb > 1:      # the public statistics API is used in the middle of the stream
        batches[rng.randrange(1, nb)]["stats"] = True
    return {"id": sid, "signal": signal, "opts": opts or {}, "batches": batches, "props": props,
            "mode": 0 if guarded else 2}

def opts_random(rng):
    o = {"dict": rng.choice(DICTS), "hasOrder": True, "orderSpan": rng.choice(ORDER_SPAN),
         "attrs16": rng.choice(ATTRS16), "attrs32": rng.choice(ATTRS32), "zstd": rng.choice([True, False])}
    t = rng.choice([None, 0.0, 0.3, 1.0, 5.0, -1.0])
    if t is not None:
        o["thr"] = t
    return o

# ------------------------------------------------------------------ running

def build(race=False):
    d = C.scratch("otapbin.")
    mod = os.path.join(d, "mod")
    shutil.copytree(HARNESS, mod)
    gomod = open(os.path.join(mod, "go.mod")).read().replace("=> /repo", "=> " + C.REPO)
    open(os.path.join(mod, "go.mod"), "w").write(gomod)
    shutil.copy(os.path.join(C.REPO, "go.sum"), os.path.join(mod, "go.sum"))
    binp = os.path.join(d, "otap.test")
    rc, out = C.sh(["go", "test", "-c", "-o", binp] + (["-race"] if race else []) + ["."], cwd=mod, env=C.GOENV, timeout=1200)
    if rc != 0:
        raise C.Inconclusive("otap harness build failed:\n" + out[-4000:])
    return binp

def run_shard(binp, planp, start, step, outp, timeout, test="TestPlan", extra_env=None):
    env = dict(C.GOENV, VERIF_PLAN=planp, VERIF_TRACE_OUT=outp, VERIF_START=str(start), VERIF_STEP=str(step))
    env.update(extra_env or {})
    rc, out = C.sh([binp, "-test.run", test, "-test.count=1", "-test.timeout", "%ds" % timeout], env=env,
                   cwd=os.path.dirname(planp), timeout=timeout + 60)
    return rc, out

def run_obs(trace, timeout=1800):
    cfg = 'SPECIFICATION Spec\nCONSTANT TraceFile = "trace.ndjson"\nINVARIANT Report\nCHECK_DEADLOCK FALSE\n'
    r = C.run_tlc(SPEC, "OtapObs", cfg, workers=1, timeout=timeout, files={"trace.ndjson": trace})
    m = re.search(r'<<"OTAPOBS-RESULT", (\d+), "(.*)">>', r["out"])
    C.drop_scratch(r["dir"])
    if not m:
        raise C.Inconclusive("OtapObs did not finish:\n" + r["out"][-3000:])
    return int(m.group(1)), json.loads(m.group(2).encode().decode("unicode_escape")), r

def execute(plan, shards=8, timeout=1500, binp=None, test="TestPlan", extra_env=None):
    """Runs the plan in `shards` processes and judges every shard with OtapObs (TLC) in parallel.
    Returns (violations [tr, prop, clause, seq], events per stream {tr: [events]}, total events, notes)."""
    binp = binp or build()
    d = C.scratch("otaprun.")
    planp = os.path.join(d, "plan.json")
    json.dump(plan, open(planp, "w"))
    shards = max(1, min(shards, len(plan)))
    outs = [os.path.join(d, "trace%d.ndjson" % s) for s in range(shards)]
    notes = []
    def one(s):
        rc, out = run_shard(binp, planp, s, shards, outs[s], timeout, test=test, extra_env=extra_env)
        if rc != 0 and "DATA RACE" in out:
            notes.append({"shard": s, "kind": "race", "output": out[out.find("WARNING: DATA RACE"):][:3000]})
            with open(outs[s], "a") as fh:
                fh.write(json.dumps({"tr": 0, "seq": 10 ** 9 + s, "ev": "Conc", "k": -1, "sig": "", "oc": "race", "err": "", "n": 0,
                                     "in": [], "out": [], "flag": 1, "bid": 0, "pl": [], "obs": [], "x": "", "a": 0, "b": 0, "l": []}) + "\n")
        elif rc != 0:
            return ("harness", s, out[-3000:])
        if not os.path.exists(outs[s]) or os.path.getsize(outs[s]) == 0:
            return ("empty", s, "")
        nev, viol, r = run_obs(outs[s], timeout)
        return ("ok", s, (nev, viol))
    with ThreadPoolExecutor(max_workers=shards) as pool:
        res = list(pool.map(one, range(shards)))
    viol, nev = [], 0
    for kind, s, payload in res:
        if kind == "harness":
            raise C.Inconclusive("otap harness shard %d failed:\n%s" % (s, payload))
        if kind == "ok":
            nev += payload[0]
            viol.extend(payload[1])
    return viol, outs, nev, notes

def stream_events(outs, tr, light=True):
    evs = []
    for o in outs:
        if not os.path.exists(o):
            continue
        with open(o) as fh:
            for line in fh:
                if '"tr":%d,' % tr not in line:
                    continue
                e = json.loads(line)
                if e["tr"] == tr:
                    evs.append(e)
    return evs

def summarize(outs):
    """Measured coverage facts per stream (used for evidence and vacuity guards)."""
    st = {}
    for o in outs:
        if not os.path.exists(o):
            continue
        with open(o) as fh:
            for line in fh:
                e = json.loads(line)
                s = st.setdefault(e["tr"], {"batches": 0, "items": 0, "obs": {}, "enc": {}, "dec": {}, "payloads": 0,
                                            "sids": set(), "maxdict": 0, "faults": 0, "ladder": {}, "schemas": set(),
                                            "fields": set()})
                if e["ev"] == "Encode":
                    s["batches"] += 1
                    s["items"] += e["n"]
                    s["enc"][e["oc"]] = s["enc"].get(e["oc"], 0) + 1
                    for ob in e["obs"]:
                        s["obs"][ob[0]] = s["obs"].get(ob[0], 0) + 1
                        if ob[0] == "NewField":
                            s["fields"].add(ob[1] + ":" + ob[2])
                    for p in e["pl"]:
                        s["payloads"] += 1
                        s["sids"].add(p["sid"])
                        s["schemas"].add(p["schema"])
                        for dct in p["dicts"]:
                            s["maxdict"] = max(s["maxdict"], dct[2])
                elif e["ev"] == "Decode":
                    s["dec"][e["oc"]] = s["dec"].get(e["oc"], 0) + 1
                    if e["l"]:
                        s["faults"] += 1
                elif e["ev"] == "Conc":
                    if e["k"] >= 0:
                        s["batches"] += 1
                        s["items"] += e["n"]
                        s["dec"][e["oc"]] = s["dec"].get(e["oc"], 0) + 1
                        s.setdefault("conc", []).append((e["oc"], e["n"]))
                elif e["ev"] == "Ladder":
                    key = e["oc"] if e["oc"] == "ok" else ("refused" if e["flag"] else e["oc"])
                    s["ladder"][key] = s["ladder"].get(key, 0) + 1
    return st


# ------------------------------------------------------------------ Allocator.tla: exhaustive + replay into the real allocator

def allocator_replay(binp, quick, seed_):
    """Returns dict(states, generated, behaviours, runs, violations, drift, sample, model_issue)."""
    res = {"violations": [], "drift": [], "model_issue": None}
    base = ("SPECIFICATION Spec\nCONSTANTS\n Limit1 = %d\n Limit2 = %d\n MaxSize = 3\n MaxBlocks = 3\n MaxOps = %d\n"
            " MutCheckAfter = FALSE\n MutShrinkIgnored = FALSE\nINVARIANTS WithinLimit Accounting Monotone SameWhileBothAlive %s\nCHECK_DEADLOCK FALSE\n")
    r = C.run_tlc(SPEC, "Allocator", base % (4, 6, 5 if quick else 7, ""), workers=8, timeout=1200)
    C.drop_scratch(r["dir"])
    if r["error"]:
        raise C.Inconclusive("Allocator.tla: %s" % r["error"])
    res["states"], res["generated"] = r["distinct"], r["generated"]
    if r["violated"]:
        res["model_issue"] = "Allocator.tla: %s" % r["violated"]
    d = C.scratch("alloc.")
    casep, outp = os.path.join(d, "cases.ndjson"), os.path.join(d, "trace.ndjson")
    seen = set()
    with open(casep, "w") as fh:
        for k, (l1, l2) in enumerate([(4, 6), (2, 9), (5, 5), (0, 3), (7, 8)]):
            rs = C.run_tlc(SPEC, "Allocator", base % (l1, l2, 8, "Emit"), workers=1, timeout=300,
                           extra_args=["-simulate", "num=%d" % (150 if quick else 2000), "-depth", "9", "-seed", str(seed_ * 17 + k)])
            for m in re.finditer(r'<<"ALLOC", "(.*)">>', rs["out"]):
                raw = m.group(1).encode().decode("unicode_escape")
                if raw not in seen:
                    seen.add(raw)
                    fh.write(raw + "\n")
            C.drop_scratch(rs["dir"])
    res["behaviours"] = len(seen)
    env = dict(C.GOENV, VERIF_ALLOC_CASES=casep, VERIF_ALLOC_OUT=outp)
    rc, out = C.sh([binp, "-test.run", "TestAllocatorReplay", "-test.count=1"], env=env, cwd=d, timeout=600)
    if rc != 0:
        raise C.Inconclusive("TestAllocatorReplay failed:\n" + out[-2000:])
    recs = [json.loads(x) for x in open(outp)]
    res["runs"] = len(recs)
    cfg = 'SPECIFICATION Spec\nCONSTANT TraceFile = "trace.ndjson"\nINVARIANT Report\nCHECK_DEADLOCK FALSE\n'
    r2 = C.run_tlc(SPEC, "AllocObs", cfg, workers=1, timeout=900, files={"trace.ndjson": outp})
    m = re.search(r'<<"ALLOCOBS-RESULT", (\d+), "(.*)", "(.*)">>', r2["out"])
    C.drop_scratch(r2["dir"])
    if not m:
        raise C.Inconclusive("AllocObs did not finish:\n" + r2["out"][-2000:])
    byn = {x["n"]: x for x in recs}
    for n_, prop, clause in json.loads(m.group(2).encode().decode("unicode_escape")):
        res["violations"].append((prop, clause, byn[n_]))
    for n_ in json.loads(m.group(3).encode().decode("unicode_escape")):
        res["drift"].append(byn[n_])
    res["sample"] = recs[len(recs) // 2] if recs else None
    C.drop_scratch(d)
    return res
