"""OTAP producer/consumer family: plans (stream histories) for harness/otap, sharded execution,
OtapObs.tla as judge."""
import json, os, random, re, shutil, time
from concurrent.futures import ThreadPoolExecutor
import common as C

SPEC = os.path.join(C.SPEC, "otap")
HARNESS = os.path.join(C.VERIF, "harness", "otap")

SIG_PROP = {"traces": "C01", "logs": "C02", "metrics": "C03"}
ORDER_SPAN = ["", "name,trace_id", "trace_id,name", "name,start_time", "name,trace_id,start_time",
              "start_time,trace_id,name", "start_time,name,trace_id"]
ATTRS16 = ["", "parent_id,key,value", "type,key,parent_id,value", "type,key,value,parent_id"]
ATTRS32 = ["", "type,parent_id,key,value", "type,key,parent_id,value", "type,key,value,parent_id", "key,value,parent_id"]
DICTS = ["", "none", "8", "16", "32", "64"]

def rand_batch(rng, rich=None, twins=None, guarded=True, size="small"):
    mr, ms, mi = {"small": (2, 2, 3), "medium": (3, 3, 8), "large": (4, 4, 40)}[size]
    return {"gen": "rand", "seed": rng.randint(1, 1 << 40), "rich": rng.choice([0, 1, 1, 2]) if rich is None else rich,
            "twins": (rng.random() < 0.35) if twins is None else twins, "guarded": guarded,
            "maxRes": mr, "maxScope": ms, "maxItems": mi}

def rand_stream(rng, sid, signal, props, opts=None, nb=None, guarded=True, size=None):
    nb = nb or rng.choice([1, 2, 3, 3, 4, 6])
    pattern = rng.choice(["mixed", "grow", "shrink", "sparse-then-rich", "rich"])
    batches = []
    for k in range(nb):
        rich = {"mixed": None, "grow": min(2, k), "shrink": max(0, 2 - k), "sparse-then-rich": 0 if k < nb - 1 else 2,
                "rich": 2}[pattern]
        b = rand_batch(rng, rich=rich, guarded=guarded, size=size or rng.choice(["small", "small", "medium"]))
        batches.append(b)
    if rng.random() < 0.2 and nb > 1:
        batches[-1] = dict(batches[-1], resend=1)
    if rng.random() < 0.25 and nb > 1:      # the public statistics API is used in the middle of the stream
        batches[rng.randrange(1, nb)]["stats"] = True
    return {"id": sid, "signal": signal, "opts": opts or {}, "batches": batches, "props": props,
            "mode": 0 if guarded else 2}

def opts_random(rng):
    o = {"dict": rng.choice(DICTS), "hasOrder": True, "orderSpan": rng.choice(ORDER_SPAN),
         "attrs16": rng.choice(ATTRS16), "attrs32": rng.choice(ATTRS32), "zstd": rng.choice([True, False])}
    if rng.random() < 0.15:
        # a corner of the ordering lattice: everything unordered / everything on its last variant
        k = rng.choice([0, -1])
        o.update(orderSpan=ORDER_SPAN[k], attrs16=ATTRS16[k], attrs32=ATTRS32[k])
    t = rng.choice([None, 0.0, 0.3, 1.0, 5.0, -1.0])
    if t is not None:
        o["thr"] = t
    if rng.random() < 0.3:
        # the initial index width must not exceed the limit (the producer panics at construction otherwise)
        lim = {"": 16, "none": 0, "8": 8, "16": 16, "32": 32, "64": 64}[o["dict"]]
        ok = [w for w in ("8", "16", "32", "64") if int(w) <= lim]
        if ok:
            o["init"] = rng.choice(ok)
    if rng.random() < 0.3:
        o["stats"] = rng.choice(["ratio", "producer", "ratio,producer"])
    return o

# ------------------------------------------------------------------ running

def build(race=False):
    d = C.scratch("otapbin.")
    mod = os.path.join(d, "mod")
    shutil.copytree(HARNESS, mod)
    gomod = open(os.path.join(mod, "go.mod")).read().replace("=> /repo", "=> " + C.REPO)
    open(os.path.join(mod, "go.mod"), "w").write(gomod)
    shutil.copy(os.path.join(C.REPO, "go.sum"), os.path.join(mod, "go.sum"))
    binp = os.path.join(d, "otap.test")
    # the stream-map projection (Stream.tla conformance) exists only in trees that carry the verif-tagged file
    tags = ["-tags", "verif"] if os.path.exists(os.path.join(C.REPO, "pkg/otel/arrow_record/verif_on.go")) else []
    rc, out = C.sh(["go", "test", "-c", "-o", binp] + tags + (["-race"] if race else []) + ["."], cwd=mod, env=C.GOENV, timeout=1200)
    if rc != 0 and tags:
        # the projection file reads private fields of Producer / Consumer; a tree in which they were renamed does not build
        # with the tag.  The checks then run without the projection (Stream.tla conformance is skipped, the domain rules
        # fall back to their conservative forms); the black-box verdicts do not need it.
        print("NOTE: the verif-tagged projection does not build against this tree; running without it")
        rc, out = C.sh(["go", "test", "-c", "-o", binp] + (["-race"] if race else []) + ["."], cwd=mod, env=C.GOENV, timeout=1200)
    if rc != 0:
        raise C.Inconclusive("otap harness build failed:\n" + out[-4000:])
    return binp

def run_shard(binp, planp, start, step, outp, timeout, test="TestPlan", extra_env=None):
    env = dict(C.GOENV, VERIF_PLAN=planp, VERIF_TRACE_OUT=outp, VERIF_START=str(start), VERIF_STEP=str(step))
    env.update(extra_env or {})
    rc, out = C.sh([binp, "-test.run", test, "-test.count=1", "-test.timeout", "%ds" % timeout], env=env,
                   cwd=os.path.dirname(planp), timeout=timeout + 60)
    return rc, out

def run_obs(trace, timeout=1800):
    cfg = 'SPECIFICATION Spec\nCONSTANT TraceFile = "trace.ndjson"\nINVARIANT Report\nCHECK_DEADLOCK FALSE\n'
    r = C.run_tlc(SPEC, "OtapObs", cfg, workers=1, timeout=timeout, files={"trace.ndjson": trace})
    m = re.search(r'<<"OTAPOBS-RESULT", (\d+), "(.*)">>', r["out"])
    C.drop_scratch(r["dir"])
    if not m:
        raise C.Inconclusive("OtapObs did not finish:\n" + r["out"][-3000:])
    return int(m.group(1)), json.loads(m.group(2).encode().decode("unicode_escape")), r

def execute(plan, shards=8, timeout=1500, binp=None, test="TestPlan", extra_env=None):
    """Runs the plan in `shards` processes and judges every shard with OtapObs (TLC) in parallel.
    Returns (violations [tr, prop, clause, seq], events per stream {tr: [events]}, total events, notes)."""
    binp = binp or build()
    d = C.scratch("otaprun.")
    planp = os.path.join(d, "plan.json")
    json.dump(plan, open(planp, "w"))
    shards = max(1, min(shards, len(plan)))
    outs = [os.path.join(d, "trace%d.ndjson" % s) for s in range(shards)]
    notes = []
    def one(s):
        env = dict(extra_env or {}, VERIF_STREAM_OUT=outs[s] + ".stream", VERIF_WIRE_OUT=outs[s] + ".wire")
        rc, out = run_shard(binp, planp, s, shards, outs[s], timeout, test=test, extra_env=env)
        if rc != 0 and "DATA RACE" in out:
            notes.append({"shard": s, "kind": "race", "output": out[out.find("WARNING: DATA RACE"):][:3000]})
            with open(outs[s], "a") as fh:
                fh.write(json.dumps({"tr": 0, "seq": 10 ** 9 + s, "ev": "Conc", "k": -1, "sig": "", "oc": "race", "err": "", "n": 0,
                                     "in": [], "out": [], "flag": 1, "bid": 0, "pl": [], "obs": [], "x": "", "a": 0, "b": 0, "l": []}) + "\n")
        elif rc != 0:
            return ("harness", s, out[-3000:])
        if not os.path.exists(outs[s]) or os.path.getsize(outs[s]) == 0:
            return ("empty", s, "")
        nev, viol, r = run_obs(outs[s], timeout)
        return ("ok", s, (nev, viol))
    with ThreadPoolExecutor(max_workers=shards) as pool:
        res = list(pool.map(one, range(shards)))
    viol, nev = [], 0
    for kind, s, payload in res:
        if kind == "harness":
            raise C.Inconclusive("otap harness shard %d failed:\n%s" % (s, payload))
        if kind == "ok":
            nev += payload[0]
            viol.extend(payload[1])
    return viol, outs, nev, notes

def stream_events(outs, tr, light=True):
    evs = []
    for o in outs:
        if not os.path.exists(o):
            continue
        with open(o) as fh:
            for line in fh:
                if '"tr":%d,' % tr not in line:
                    continue
                e = json.loads(line)
                if e["tr"] == tr:
                    evs.append(e)
    return evs

def summarize(outs):
    """Measured coverage facts per stream (used for evidence and vacuity guards)."""
    st = {}
    for o in outs:
        if not os.path.exists(o):
            continue
        with open(o) as fh:
            for line in fh:
                e = json.loads(line)
                s = st.setdefault(e["tr"], {"batches": 0, "items": 0, "obs": {}, "enc": {}, "dec": {}, "payloads": 0,
                                            "sids": set(), "maxdict": 0, "faults": 0, "ladder": {}, "schemas": set(),
                                            "fields": set()})
                if e["ev"] == "Encode":
                    s["batches"] += 1
                    s["items"] += e["n"]
                    s["enc"][e["oc"]] = s["enc"].get(e["oc"], 0) + 1
                    for ob in e["obs"]:
                        s["obs"][ob[0]] = s["obs"].get(ob[0], 0) + 1
                        if ob[0] == "NewField":
                            s["fields"].add(ob[1] + ":" + ob[2])
                    for p in e["pl"]:
                        s["payloads"] += 1
                        s["sids"].add(p["sid"])
                        s["schemas"].add(p["schema"])
                        for dct in p["dicts"]:
                            s["maxdict"] = max(s["maxdict"], dct[2])
                elif e["ev"] == "Decode":
                    s["dec"][e["oc"]] = s["dec"].get(e["oc"], 0) + 1
                    if e["l"]:
                        s["faults"] += 1
                elif e["ev"] == "Conc":
                    if e["k"] >= 0:
                        s["batches"] += 1
                        s["items"] += e["n"]
                        s["dec"][e["oc"]] = s["dec"].get(e["oc"], 0) + 1
                        s.setdefault("conc", []).append((e["oc"], e["n"]))
                elif e["ev"] == "Ladder":
                    key = e["oc"] if e["oc"] == "ok" else ("refused" if e["flag"] else e["oc"])
                    s["ladder"][key] = s["ladder"].get(key, 0) + 1
    return st


# ------------------------------------------------------------------ Allocator.tla: exhaustive + replay into the real allocator

def allocator_unbounded():
    """The counter logic over unbounded integers: Apalache proves AllocatorInd!IndInv inductive (Init => IndInv at
    length 0, IndInv /\ Next => IndInv' at length 1, for every Limit1 <= Limit2 and every request size); TLC checks that
    Allocator.tla refines AllocatorInd.tla under held = Sum(blocks), and that the refinement is refuted for the mutant
    `MutCheckAfter`.  Returns dict(ok, steps=[...], problem)."""
    res = {"ok": True, "steps": [], "problem": None}
    d = C.scratch("apalache.")
    shutil.copy(os.path.join(SPEC, "AllocatorInd.tla"), d)
    for name, init, length in (("Init => IndInv", "Init", 0), ("IndInv /\\ Next => IndInv'", "IndInvInit", 1)):
        t = time.time()
        rc, out = C.sh(["timeout", "300", "apalache-mc", "check", "--cinit=ConstInit", "--init=" + init, "--inv=IndInv",
                        "--length=%d" % length, "AllocatorInd.tla"], cwd=d, timeout=400)
        ok = rc == 0 and "EXITCODE: OK" in out
        res["steps"].append({"tool": "apalache", "obligation": name, "ok": ok, "wall_s": round(time.time() - t, 1)})
        if not ok:
            res["ok"] = False
            res["problem"] = res["problem"] or ("Apalache did not discharge %s: %s" % (name, out[-300:].replace("\n", " | ")))
    C.drop_scratch(d)
    cfg = ("SPECIFICATION Spec\nCONSTANTS\n Limit1 = 3\n Limit2 = 5\n MaxSize = 3\n MaxBlocks = 3\n MaxOps = 5\n MutCheckAfter = %s\n"
           " MutShrinkIgnored = FALSE\nPROPERTY Refines\nINVARIANT AbsInv\nCHECK_DEADLOCK FALSE\n")
    r = C.run_tlc(SPEC, "MC_AllocatorRef", cfg % "FALSE", workers=4, timeout=600)
    C.drop_scratch(r["dir"])
    okr = not r["violated"] and not r["error"]
    res["steps"].append({"tool": "tlc", "obligation": "Allocator refines AllocatorInd (held = Sum(blocks))", "ok": okr,
                         "distinct": r["distinct"], "wall_s": round(r["wall"], 1)})
    r2 = C.run_tlc(SPEC, "MC_AllocatorRef", cfg % "TRUE", workers=2, timeout=600)
    C.drop_scratch(r2["dir"])
    res["steps"].append({"tool": "tlc", "obligation": "the refinement is refuted for MutCheckAfter", "ok": bool(r2["violated"]),
                         "violated": r2["violated"]})
    if not okr or not r2["violated"]:
        res["ok"] = False
        res["problem"] = res["problem"] or "refinement check: %s / mutant: %s" % (r["violated"] or r["error"], r2["violated"])
    return res

def allocator_replay(binp, quick, seed_):
    """Returns dict(states, generated, behaviours, runs, violations, drift, sample, model_issue)."""
    res = {"violations": [], "drift": [], "model_issue": None}
    base = ("SPECIFICATION Spec\nCONSTANTS\n Limit1 = %d\n Limit2 = %d\n MaxSize = 3\n MaxBlocks = 3\n MaxOps = %d\n"
            " MutCheckAfter = FALSE\n MutShrinkIgnored = FALSE\nINVARIANTS WithinLimit Accounting Monotone SameWhileBothAlive %s\nCHECK_DEADLOCK FALSE\n")
    r = C.run_tlc(SPEC, "Allocator", base % (4, 6, 5 if quick else 7, ""), workers=8, timeout=1200)
    C.drop_scratch(r["dir"])
    if r["error"]:
        raise C.Inconclusive("Allocator.tla: %s" % r["error"])
    res["states"], res["generated"] = r["distinct"], r["generated"]
    if r["violated"]:
        res["model_issue"] = "Allocator.tla: %s" % r["violated"]
    d = C.scratch("alloc.")
    casep, outp = os.path.join(d, "cases.ndjson"), os.path.join(d, "trace.ndjson")
    seen = set()
    with open(casep, "w") as fh:
        for k, (l1, l2) in enumerate([(4, 6), (2, 9), (5, 5), (0, 3), (7, 8)]):
            rs = C.run_tlc(SPEC, "Allocator", base % (l1, l2, 8, "Emit"), workers=1, timeout=300,
                           extra_args=["-simulate", "num=%d" % (150 if quick else 2000), "-depth", "9", "-seed", str(seed_ * 17 + k)])
            for m in re.finditer(r'<<"ALLOC", "(.*)">>', rs["out"]):
                raw = m.group(1).encode().decode("unicode_escape")
                if raw not in seen:
                    seen.add(raw)
                    fh.write(raw + "\n")
            C.drop_scratch(rs["dir"])
    res["behaviours"] = len(seen)
    env = dict(C.GOENV, VERIF_ALLOC_CASES=casep, VERIF_ALLOC_OUT=outp)
    rc, out = C.sh([binp, "-test.run", "TestAllocatorReplay", "-test.count=1"], env=env, cwd=d, timeout=600)
    if rc != 0:
        raise C.Inconclusive("TestAllocatorReplay failed:\n" + out[-2000:])
    recs = [json.loads(x) for x in open(outp)]
    res["runs"] = len(recs)
    cfg = 'SPECIFICATION Spec\nCONSTANT TraceFile = "trace.ndjson"\nINVARIANT Report\nCHECK_DEADLOCK FALSE\n'
    r2 = C.run_tlc(SPEC, "AllocObs", cfg, workers=1, timeout=900, files={"trace.ndjson": outp})
    m = re.search(r'<<"ALLOCOBS-RESULT", (\d+), "(.*)", "(.*)">>', r2["out"])
    C.drop_scratch(r2["dir"])
    if not m:
        raise C.Inconclusive("AllocObs did not finish:\n" + r2["out"][-2000:])
    byn = {x["n"]: x for x in recs}
    for n_, prop, clause in json.loads(m.group(2).encode().decode("unicode_escape")):
        res["violations"].append((prop, clause, byn[n_]))
    for n_ in json.loads(m.group(3).encode().decode("unicode_escape")):
        res["drift"].append(byn[n_])
    res["sample"] = recs[len(recs) // 2] if recs else None
    C.drop_scratch(d)
    return res

# ------------------------------------------------------------------ DictObs.tla: the dictionary state machine on recorded streams

LABELS = {"SPANS": "traces", "LOGS": "logs", "UNIVARIATE_METRICS": "metrics", "RESOURCE_ATTRS": "resource-attrs",
          "SCOPE_ATTRS": "scope-attrs", "NUMBER_DATA_POINTS": "number-dps", "NUMBER_DP_ATTRS": "number-dp-attrs",
          "NUMBER_DP_EXEMPLARS": "number-dp-exemplars", "NUMBER_DP_EXEMPLAR_ATTRS": "number-dp-exemplar-attrs",
          "SUMMARY_DATA_POINTS": "summary-dps", "SUMMARY_DP_ATTRS": "summary-dp-attrs", "HISTOGRAM_DATA_POINTS": "histogram-dps",
          "HISTOGRAM_DP_ATTRS": "histogram-dp-attrs", "HISTOGRAM_DP_EXEMPLARS": "histogram-dp-exemplars",
          "HISTOGRAM_DP_EXEMPLAR_ATTRS": "histogram-dp-exemplar-attrs", "EXP_HISTOGRAM_DATA_POINTS": "exp-histogram-dps",
          "EXP_HISTOGRAM_DP_ATTRS": "exp-histogram-dp-attrs", "EXP_HISTOGRAM_DP_EXEMPLARS": "exp-histogram-dp-exemplars",
          "EXP_HISTOGRAM_DP_EXEMPLAR_ATTRS": "exp-histogram-dp-exemplar-attrs", "LOG_ATTRS": "logs-attrs", "SPAN_ATTRS": "span-attrs",
          "SPAN_EVENTS": "span-event", "SPAN_EVENT_ATTRS": "span-event-attrs", "SPAN_LINKS": "span-link", "SPAN_LINK_ATTRS": "span-link-attrs"}
_BITS = {"uint8": 8, "uint16": 16, "uint32": 32, "uint64": 64}
_CAPS = {8: 255, 16: 65535, 32: 2147483647, 64: 2147483647}
_LIMIT_BITS = {"": 16, "8": 8, "16": 16, "32": 32, "64": 64}

def dict_records(outs, plan, dest):
    """Writes one record per (stream, record label, dictionary column, batch) for DictObs.tla; returns their number."""
    nrec = 0
    state = {}       # (tr, label, path) -> {"init": bits}
    dead = set()     # streams whose producer refused / crashed: their counters are no longer predictable
    mixed = {tr + 1 for tr, st in enumerate(plan) if any(b.get("signal") for b in st["batches"])}
    with open(dest, "w") as fh:
        for o in outs:
            if not os.path.exists(o):
                continue
            with open(o) as src:
                for line in src:
                    if '"ev":"Encode"' not in line:
                        continue
                    e = json.loads(line)
                    tr = e["tr"]
                    st = plan[tr - 1]
                    if e["oc"] != "ok":
                        dead.add(tr)
                    if tr in dead or tr in mixed or st["opts"].get("dict") == "none":
                        continue
                    lim = _LIMIT_BITS.get(st["opts"].get("dict", ""), 16)
                    t = st["opts"].get("thr")
                    thr = [3, 10] if t is None else ([-1, 1] if t < 0 else [int(round(t * 10)), 10])
                    # schema-update groups per record label
                    groups = {}
                    cur = {}
                    for ob in e["obs"]:
                        kind, label = ob[0], ob[1]
                        c = cur.setdefault(label, {"new": False, "ev": {}})
                        if kind in ("NewField", "MetadataUpdate"):
                            c["new"] = True
                        elif kind in ("Upgrade", "Overflow", "Reset"):
                            c["ev"][ob[2]] = (kind.lower(), ob[5], ob[6], ob[3], ob[4])
                        elif kind == "SchemaUpdate":
                            groups.setdefault(label, []).append(("dict" if c["ev"] else "early", c["ev"]))
                            cur[label] = {"new": False, "ev": {}}
                    for p in e["pl"]:
                        label = LABELS.get(p["ptype"])
                        if label is None or p["indep"] != "ok":
                            continue
                        wire = {d[0]: (d[1], d[2]) for d in p["dicts"]}
                        gl = groups.get(label, [])
                        paths = set(wire)
                        for gk, evs in gl:
                            paths |= set(evs)
                        for path in sorted(paths):
                            key = (tr, label, path)
                            first = key not in state
                            if first:
                                init = None
                                for gk, evs in gl:
                                    if path in evs:
                                        ek = evs[path]
                                        init = _BITS.get(ek[3]) if ek[0] in ("upgrade", "reset") else None
                                        break
                                if init is None:
                                    init = wire.get(path, (8, 0))[0] or 8
                                state[key] = {"init": init}
                            init = state[key]["init"]
                            lo = min(init, lim)
                            caps = [_CAPS[b] for b in (8, 16, 32, 64) if lo <= b <= lim]
                            g = []
                            for gk, evs in gl:
                                ek = evs.get(path)
                                g.append([gk, ek[0] if ek else "", ek[1] if ek else 0, ek[2] if ek else 0])
                            bits, entries = wire.get(path, (0, 0))
                            rec = {"n": tr, "k": e["k"], "col": "%d|%s|%s" % (tr, label, path), "first": 1 if first else 0,
                                   "rows": max(p["rows"], 0), "g": g, "bits": bits, "entries": entries, "caps": caps, "thr": thr}
                            fh.write(json.dumps(rec) + "\n")
                            nrec += 1
    return nrec

def run_dictobs(outs, plan, timeout=1200):
    d = C.scratch("dictobs.")
    tp = os.path.join(d, "trace.ndjson")
    n = dict_records(outs, plan, tp)
    if n == 0:
        return {"records": 0, "columns": 0, "drift": []}
    cfg = 'SPECIFICATION Spec\nCONSTANT TraceFile = "trace.ndjson"\nINVARIANT Report\nCHECK_DEADLOCK FALSE\n'
    # the monitor's state grows with the number of columns it follows: whole streams are validated in chunks, in parallel
    chunks, cur, last_tr = [], [], None
    with open(tp) as fh:
        for line in fh:
            tr = json.loads(line)["n"]          # the stream the column belongs to
            if len(cur) >= 12000 and tr != last_tr:
                chunks.append(cur)
                cur = []
            cur.append(line)
            last_tr = tr
    if cur:
        chunks.append(cur)
    def one(k):
        cp = os.path.join(d, "chunk%d.ndjson" % k)
        open(cp, "w").writelines(chunks[k])
        r = C.run_tlc(SPEC, "DictObs", cfg, workers=1, timeout=timeout, files={"trace.ndjson": cp}, heap="4g")
        m = re.search(r'<<"DICTOBS-RESULT", (\d+), (\d+), "(.*)">>', r["out"])
        C.drop_scratch(r["dir"])
        if not m:
            raise C.Inconclusive("DictObs did not finish:\n" + r["out"][-2500:])
        return int(m.group(1)), int(m.group(2)), json.loads(m.group(3).encode().decode("unicode_escape"))
    res = {"records": 0, "columns": 0, "drift": []}
    with ThreadPoolExecutor(max_workers=6) as pool:
        for nrec, ncol, drift in pool.map(one, range(len(chunks))):
            res["records"] += nrec
            res["columns"] += ncol
            res["drift"].extend(drift)
    C.drop_scratch(d)
    return res

def run_otapwire(outs, timeout=1200, chunk=400):
    """OtapWire.tla on the id / parent-id view of every small emitted batch (files <trace>.wire written by the harness).
    Returns dict(batches, rows, drift=[[tr, k, clause, table]])."""
    d = C.scratch("otapwire.")
    lines = []
    for o in outs:
        wp = o + ".wire"
        if os.path.exists(wp):
            with open(wp) as fh:
                lines.extend(fh.readlines())
    res = {"batches": 0, "rows": 0, "drift": []}
    if not lines:
        C.drop_scratch(d)
        return res
    cfg = 'SPECIFICATION Spec\nCONSTANT TraceFile = "trace.ndjson"\nINVARIANT Report\nCHECK_DEADLOCK FALSE\n'
    chunks = [lines[j:j + chunk] for j in range(0, len(lines), chunk)]
    def one(k):
        cp = os.path.join(d, "chunk%d.ndjson" % k)
        open(cp, "w").writelines(chunks[k])
        r = C.run_tlc(SPEC, "OtapWire", cfg, workers=1, timeout=timeout, files={"trace.ndjson": cp}, heap="4g")
        m = re.search(r'<<"OTAPWIRE-RESULT", (\d+), (\d+), "(.*)">>', r["out"])
        C.drop_scratch(r["dir"])
        if not m:
            raise C.Inconclusive("OtapWire did not finish:\n" + r["out"][-2500:])
        return int(m.group(1)), int(m.group(2)), json.loads(m.group(3).encode().decode("unicode_escape"))
    with ThreadPoolExecutor(max_workers=6) as pool:
        for nb, nr, drift in pool.map(one, range(len(chunks))):
            res["batches"] += nb
            res["rows"] += nr
            res["drift"].extend(drift)
    C.drop_scratch(d)
    return res

def dictionary_mc(quick):
    """Exhaustive TLC runs of Dictionary.tla (scaled capacities). Returns (states, generated, runs, issues)."""
    runs = [('{"a"}', "MCCaps2", 3, 10, 6, 4), ('{"a", "b"}', "MCCaps2", 3, 10, 3, 3), ('{"a"}', "MCCaps3", -1, 1, 9, 3),
            ('{"a"}', "MCCaps1", 1, 1, 5, 4), ('{"a"}', "MCCaps2", 0, 1, 6, 4)]
    if not quick:
        runs += [('{"a", "b"}', "MCCaps2", 3, 10, 4, 4), ('{"a"}', "MCCaps3", 3, 10, 10, 4), ('{"a", "b"}', "MCCaps3", -1, 1, 5, 3)]
    states = gen = 0
    out, issues = [], []
    def one(r):
        cols, caps, tn, td, maxn, nb = r
        cfg = ("SPECIFICATION Spec\nCONSTANTS\n Cols = %s\n Caps <- %s\n ThrNum = %d\n ThrDen = %d\n MaxN = %d\n MaxBatches = %d\n MaxRetry = 5\n"
               " MutNoResetGuard = FALSE\n MutKeepWidening = FALSE\nINVARIANTS TypeOK DictBound NoPanic RetryBound\nPROPERTIES Widening PlainIsFinal\nCHECK_DEADLOCK FALSE\n"
               % (cols, caps, tn, td, maxn, nb))
        if tn < 0:
            cfg = cfg.replace(" ThrNum = %d\n" % tn, " ThrNum <- ThrInf\n")
        x = C.run_tlc(SPEC, "MC_Dictionary", cfg, workers=4, timeout=1800)
        C.drop_scratch(x["dir"])
        return r, x
    with ThreadPoolExecutor(max_workers=4) as pool:
        for r, x in pool.map(one, runs):
            if x["error"]:
                raise C.Inconclusive("Dictionary.tla: %s\n%s" % (x["error"], x["out"][-1500:]))
            if x["violated"]:
                issues.append("Dictionary.tla %s: %s" % (r, x["violated"]))
            states += x["distinct"]
            gen += x["generated"]
            out.append({"cols": r[0], "caps": r[1], "thr": "%d/%d" % (r[2], r[3]), "maxN": r[4], "batches": r[5],
                        "distinct": x["distinct"], "generated": x["generated"]})
    return states, gen, out, issues

def dictionary_unbounded():
    """The dictionary state machine over unbounded integers and symbolic capacities: Apalache proves DictionaryInd!IndInv
    inductive (DictBound, NoPanic with retries <= 3, for every capacity triple, batch size and history length); the
    inductive step is refuted for MutNoResetGuard (the code before fix 818b11eb); TLC checks that Dictionary.tla (two
    columns, three levels) refines DictionaryInd.tla.  Returns dict(ok, steps=[...], problem)."""
    res = {"ok": True, "steps": [], "problem": None}
    d = C.scratch("apalache.")
    shutil.copy(os.path.join(SPEC, "DictionaryInd.tla"), d)
    for name, cinit, init, length, want in (("Init => IndInv", "ConstInit", "Init", 0, True),
                                            ("IndInv /\\ Next => IndInv'", "ConstInit", "IndInvInit", 1, True),
                                            ("the inductive step is refuted for MutNoResetGuard", "ConstInitMut", "IndInvInit", 1, False)):
        t = time.time()
        rc, out = C.sh(["timeout", "300", "apalache-mc", "check", "--cinit=" + cinit, "--init=" + init, "--inv=IndInv",
                        "--length=%d" % length, "DictionaryInd.tla"], cwd=d, timeout=400)
        proved = rc == 0 and "EXITCODE: OK" in out
        refuted = "EXITCODE: ERROR (12)" in out
        ok = proved if want else refuted
        res["steps"].append({"tool": "apalache", "obligation": name, "ok": ok, "wall_s": round(time.time() - t, 1)})
        if not ok:
            res["ok"] = False
            res["problem"] = res["problem"] or ("Apalache: %s: %s" % (name, out[-300:].replace("\n", " | ")))
    C.drop_scratch(d)
    cfg = ("SPECIFICATION Spec\nCONSTANTS\n Cols <- RefCols\n Caps <- RefCaps\n ThrNum = 3\n ThrDen = 10\n MaxN = 5\n MaxBatches = 2\n"
           " MaxRetry = 5\n MutNoResetGuard = FALSE\n MutKeepWidening = FALSE\nPROPERTY Refines\nINVARIANT AbsInv\nCHECK_DEADLOCK FALSE\n")
    r = C.run_tlc(SPEC, "MC_DictionaryRef", cfg, workers=6, timeout=900)
    C.drop_scratch(r["dir"])
    okr = not r["violated"] and not r["error"]
    res["steps"].append({"tool": "tlc", "obligation": "Dictionary refines DictionaryInd (identity on the shared state)", "ok": okr,
                         "distinct": r["distinct"], "wall_s": round(r["wall"], 1)})
    r2 = C.run_tlc(SPEC, "MC_DictionaryRef", cfg.replace("MutNoResetGuard = FALSE", "MutNoResetGuard = TRUE").replace(" ThrNum = 3\n", " ThrNum <- RefThrInf\n"),
                   workers=4, timeout=900)
    C.drop_scratch(r2["dir"])
    res["steps"].append({"tool": "tlc", "obligation": "the abstract invariant is violated by the bounded model with MutNoResetGuard", "ok": bool(r2["violated"]),
                         "violated": r2["violated"]})
    if not okr or not r2["violated"]:
        res["ok"] = False
        res["problem"] = res["problem"] or "refinement check: %s / mutant: %s" % (r["violated"] or r["error"], r2["violated"])
    return res

# ------------------------------------------------------------------ Stream.tla: the payload-level producer/consumer protocol

# mutants that must violate an invariant in every run (anti-vacuity).  MutLenientCount and MutSkipUnknown only led to a panic
# through the use-after-release that fix 8e767b7c removed; with the main record retained they are harmless at the level of
# the listed properties and are kept in the specification as switches only.
STREAM_MUTANTS = ["MutRetireBySignal", "MutNoRetire", "MutNilRelease", "MutOpenOnCreate", "MutNoRetainMain"]
STREAM_SWITCHES = STREAM_MUTANTS + ["MutLenientCount", "MutSkipUnknown"]

def _stream_cfg(related, batches, faults, levels=(1, 2), mutant=None):
    lines = ["SPECIFICATION MCSpec", "CONSTANTS", '  Signals = {"t", "l"}', "  Related = {%s}" % ", ".join('"%s"' % r for r in related),
             "  MainOf <- MCMainOf", "  Family <- MCFamily", "  KnownOf <- MCKnownOf", "  Singletons <- MCSingletons", '  Foreign = "X"',
             "  MaxFaults = %d" % faults, "  Levels = {%s}" % ", ".join(map(str, levels)), "  MaxBatches = %d" % batches]
    for m in STREAM_SWITCHES:
        lines.append("  %s = %s" % (m, "TRUE" if m == mutant else "FALSE"))
    lines.append("INVARIANTS NoPanic NoSilentLoss HealthyOK JudgedCleanInSequence Sync IdDenotesOne NoReuse SchemaFirst MainFirst "
                 "OncePerType LiveBound ConsumerBound")
    lines.append("CHECK_DEADLOCK FALSE")
    return "\n".join(lines) + "\n"

def stream_mc(quick):
    """Exhaustive check of Stream.tla (producer / faults / consumer) plus one run per specification mutant: each mutant
    must violate an invariant, which shows the invariants are not vacuous on the bounded instance."""
    plans = [("R,Q b2 f2", ("R", "Q"), 2, 2), ("R b3 f2", ("R",), 3, 2), ("R b2 f3", ("R",), 2, 3)] if quick else [("R,Q b3 f2", ("R", "Q"), 3, 2), ("R b4 f2", ("R",), 4, 2),
                                                                                       ("R,Q b2 f3", ("R", "Q"), 2, 3), ("R b3 f3", ("R",), 3, 3)]
    res = {"configs": [], "distinct": 0, "generated": 0, "wall": 0.0, "problem": None, "mutants": {}}
    def one(p):
        name, rel, nb, nf = p
        return name, C.run_tlc(SPEC, "MC_Stream", _stream_cfg(rel, nb, nf), workers=5 if quick else 8, timeout=600 if quick else 5400)
    def mut(m):
        # the use-after-release of the main record needs three faults on one batch (drop the main payload, duplicate a
        # related one, relabel a copy as main)
        nb, nf = (2, 3) if m == "MutNoRetainMain" else (3, 2)
        return m, C.run_tlc(SPEC, "MC_Stream", _stream_cfg(("R",), nb, nf, mutant=m), workers=3, timeout=900)
    with ThreadPoolExecutor(max_workers=3) as pool:
        fs = [pool.submit(one, p) for p in plans]
        ms = [pool.submit(mut, m) for m in STREAM_MUTANTS]
        for f in fs:
            name, r = f.result()
            C.drop_scratch(r["dir"])
            res["configs"].append({"name": name, "distinct": r["distinct"], "generated": r["generated"], "depth": r["depth"],
                                   "wall_s": round(r["wall"], 1), "violated": r["violated"], "error": r["error"]})
            res["distinct"] += r["distinct"]
            res["generated"] += r["generated"]
            res["wall"] += r["wall"]
            if r["violated"] or r["error"]:
                res["problem"] = "%s: %s" % (name, r["violated"] or r["error"])
        for f in ms:
            m, r = f.result()
            C.drop_scratch(r["dir"])
            res["mutants"][m] = r["violated"] or ("error:" + str(r["error"]) if r["error"] else None)
            if not r["violated"]:
                res["problem"] = res["problem"] or "specification mutant %s violates no invariant (vacuity)" % m
    return res

_STREAMTRACE_CFG = """SPECIFICATION TSpec
CONSTANTS
  TraceFile = "stream.ndjson"
  Signals <- TSignals
  MainOf <- TMainOf
  Related <- TRelated
  KnownOf <- TKnownOf
  Singletons <- TSingle
  Family <- TFamily
  Foreign = "UNKNOWN"
  MaxFaults = 0
  MutRetireBySignal = FALSE
  MutNoRetire = FALSE
  MutNilRelease = FALSE
  MutLenientCount = FALSE
  MutSkipUnknown = FALSE
  MutOpenOnCreate = FALSE
  MutNoRetainMain = FALSE
CONSTRAINT HW
INVARIANT TraceInv
POSTCONDITION Report
CHECK_DEADLOCK FALSE
"""

def stream_conformance(outs, max_drift=6, timeout=900, chunk=2500):
    """Validates the recorded Produce/Consume steps (the .stream file of every shard) against Stream.tla with TLC.
    Returns dict(streams, events, accepted, drift=[{stream, line, event}], invariant=...).  A stream the specification does
    not explain is reported and dropped, and the rest is validated again.  Many streams are validated in chunks, in parallel."""
    lines = []
    for o in outs:
        sp = o + ".stream"
        if os.path.exists(sp):
            with open(sp) as fh:
                for line in fh:
                    lines.append((os.path.basename(o), json.loads(line)))
    res = {"streams": len({(o, e["tr"]) for o, e in lines}), "events": len(lines), "accepted": 0, "drift": [], "invariant": None, "wall": 0.0}
    if not lines:
        return res
    # chunks of whole streams
    chunks, cur, seen = [], [], set()
    for o, e in lines:
        key = (o, e["tr"])
        if key not in seen and len(seen) >= chunk and e["ev"] == "Begin":
            chunks.append(cur)
            cur, seen = [], set()
        seen.add(key)
        cur.append((o, e))
    if cur:
        chunks.append(cur)
    def one(part):
        return _stream_conformance_chunk(part, max_drift, timeout)
    with ThreadPoolExecutor(max_workers=6) as pool:
        for r in pool.map(one, chunks):
            res["accepted"] += r["accepted"]
            res["drift"].extend(r["drift"])
            res["wall"] += r["wall"]
            res["invariant"] = res["invariant"] or r["invariant"]
    return res

def _stream_conformance_chunk(lines, max_drift, timeout):
    d = C.scratch("strtrace.")
    res = {"streams": len({(o, e["tr"]) for o, e in lines}), "accepted": 0, "drift": [], "invariant": None, "wall": 0.0}
    dropped = set()
    for attempt in range(max_drift + 1):
        cur = [(o, e) for o, e in lines if (o, e["tr"]) not in dropped]
        path = os.path.join(d, "stream.ndjson")
        with open(path, "w") as fh:
            for o, e in cur:
                fh.write(json.dumps(e) + "\n")
        r = C.run_tlc(SPEC, "MC_StreamTrace", _STREAMTRACE_CFG, workers=1, timeout=timeout, files={"stream.ndjson": path})
        res["wall"] += r["wall"]
        m = re.search(r'<<"STREAMTRACE-HW", (\d+), (\d+)>>', r["out"])
        C.drop_scratch(r["dir"])
        if r["violated"]:
            res["invariant"] = r["violated"]
        if not m and not r["violated"]:
            raise C.Inconclusive("StreamTrace did not finish:\n" + r["out"][-3000:])
        hw = int(m.group(1)) if m else 0
        if r["violated"]:
            ls = re.findall(r"/\\ l = (\d+)", r["out"])
            hw = max(1, int(ls[-1]) - 1) if ls else 1
        if m and hw > len(cur) and not r["violated"]:
            res["accepted"] = len({(o, e["tr"]) for o, e in cur})
            break
        # the line the specification could not step over (or the one at which an invariant broke)
        idx = min(max(hw, 1), len(cur)) - 1
        o, e = cur[idx]
        res["drift"].append({"stream": e["tr"], "shard": o, "line": idx + 1, "event": {k: e[k] for k in ("ev", "k", "sig", "oc", "n", "x", "pl", "fp", "cs", "ps")},
                             "invariant": r["violated"]})
        dropped.add((o, e["tr"]))
    else:
        res["accepted"] = res["streams"] - len(dropped)
    C.drop_scratch(d)
    return res

# ------------------------------------------------------------------ StreamSim.tla: TLC-generated behaviours -> streams for the real code

_SIM_SIG = {"t": "traces", "l": "logs", "m": "metrics"}
_SIM_LABEL = {"t": "SPANS", "l": "LOGS", "m": "UNIVARIATE_METRICS", "R": "RESOURCE_ATTRS", "X": "UNKNOWN"}
_SIM_Q = {"traces": "SPAN_EVENTS", "logs": "LOG_ATTRS", "metrics": "NUMBER_DATA_POINTS"}

def stream_behaviours(num, seed_, rng, timeout=600):
    """tlc -simulate on StreamSim.tla; every finished behaviour (batches of three signals with growing schema levels, altered
    in flight by up to four faults) becomes a stream for harness/otap.  The concretisation need not be exact: every run is
    recorded, validated step by step by StreamTrace.tla and judged by OtapObs.tla as it happened."""
    lines = ["SPECIFICATION SimSpec", "CONSTANTS", '  Signals = {"t", "l", "m"}', '  Related = {"R", "Q"}', "  MainOf <- MCMainOf",
             "  Family <- MCFamily", "  KnownOf <- MCKnownOf", "  Singletons <- MCSingletons", '  Foreign = "X"', "  MaxFaults = 4",
             "  Levels = {1, 2, 3}", "  MaxBatches = 5"] + ["  %s = FALSE" % m for m in STREAM_SWITCHES] + \
            ["INVARIANTS Emit NoPanic NoSilentLoss HealthyOK", "CHECK_DEADLOCK FALSE"]
    r = C.run_tlc(SPEC, "StreamSim", "\n".join(lines) + "\n", workers=1, timeout=timeout,
                  extra_args=["-simulate", "num=%d" % num, "-depth", "70", "-seed", str(seed_)])
    C.drop_scratch(r["dir"])
    if r["error"] or r["violated"]:
        raise C.Inconclusive("StreamSim failed: %s\n%s" % (r["error"] or r["violated"], r["out"][-2000:]))
    seen, plan = set(), []
    for m in re.finditer(r'<<"BEHAVIOUR", "(.*)">>', r["out"]):
        raw = m.group(1).encode().decode("unicode_escape")
        if raw in seen:
            continue
        seen.add(raw)
        beh = json.loads(raw)
        batches, nspec, sig = [], 0, "traces"
        for op in beh["h"]:
            if op["op"] == "produce":
                sig = _SIM_SIG[op["s"]]
                nspec = 1 + op["rel"]
                batches.append({"gen": "uniform", "n": op["r"], "signal": sig, "seed": rng.randint(1, 1 << 40), "rich": 2, "guarded": True,
                                "maxRes": 1 + op["m"] % 2, "maxScope": 2, "maxItems": 5, "faults": []})
                continue
            if not batches:
                continue
            pos = lambda i: (i - 1) if i <= nspec else -1
            k = op["op"]
            if k == "relabel":
                lab = _SIM_LABEL.get(op["l"]) or _SIM_Q[sig]
                f = ["relabel", pos(op["i"]), lab]
            elif k == "swap":
                f = ["swap", pos(op["i"]), pos(op["j"])]
            else:
                f = [k, pos(op["i"])]
            batches[-1]["faults"].append(f)
        if batches:
            plan.append({"id": "tlc/%d/%d" % (seed_, len(plan)), "signal": batches[0]["signal"], "opts": {}, "batches": batches, "props": [],
                         "mode": 0, "nowire": True})
    return plan
