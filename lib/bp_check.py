"""Decides one batch-processor property (see DESIGN.md section 7)."""
import json, os, random, sys, time
from concurrent.futures import ThreadPoolExecutor
import common as C
import bp

TITLES = {
    "C05": "exactly once, content intact", "C06": "true outcome per caller", "C09": "size limits and deadlines",
    "C10": "tenants never mixed, cardinality limit", "C11": "bounded concurrency, drain, no deadlock/race",
    "C18": "contexts isolated",
}

def fixed_scenarios(pid):
    """Regression scenarios kept under replays/<pid>/finding-*.json and scenarios/<pid>*.json."""
    out = []
    for d in (os.path.join(C.VERIF, "replays", pid), os.path.join(C.VERIF, "scenarios")):
        if not os.path.isdir(d):
            continue
        for f in sorted(os.listdir(d)):
            if not f.endswith(".json"):
                continue
            if d.endswith("scenarios") and not (f.startswith(pid) or f.startswith("all")):
                continue
            if d.endswith(pid) and not f.startswith("finding-"):
                continue
            try:
                obj = json.load(open(os.path.join(d, f)))
            except ValueError:
                continue
            scs = obj if isinstance(obj, list) else [obj.get("scenario", obj)]
            for i, s in enumerate(scs):
                if isinstance(s, dict) and "callers" in s:
                    s = dict(s, id="fixed/%s/%d" % (f, i), origin="fixed")
                    out.append(s)
    return out

def run(pid, tier_, replay=None):
    seed = C.seed()
    rng = random.Random(seed * 7919 + int(pid[1:]))
    quick = tier_ == "quick"
    notes = []

    if replay:
        obj = json.load(open(replay))
        if isinstance(obj, dict) and "split_case" in obj:
            got = [v for v in bp.split_replay(bp.build_harness(race=False), obj["split_case"]) if v[0] == pid]
            for prop, clause in got:
                print("VIOLATION property=%s replay=%s" % (pid, replay))
                print("  what: %s on split case %s size %s" % (clause, json.dumps(obj["split_case"]["shape"]), obj["split_case"]["size"]))
            if not got:
                print("replay: no violation of %s reproduced on the split case" % pid)
            return 1 if got else 0
        if isinstance(obj, dict) and "repo_test" in obj:
            import bp_repotests
            rr = bp_repotests.run(only={obj["repo_test"]})
            got = [v for v in rr["violations"] if v[0] == pid]
            for prop, clause, t, seq in got[:5]:
                print("VIOLATION property=%s replay=%s" % (pid, replay))
                print("  what: %s at hook event %d of the repository's own test %s (go test -tags verif -run '^%s$')" % (clause, seq, t, t))
            if not got:
                print("replay: no violation of %s reproduced on %s (%d hook events judged)" % (pid, obj["repo_test"], rr["events"]))
            return 1 if got else 0
        scs = [obj["scenario"]] if "scenario" in obj else (obj if isinstance(obj, list) else [obj])
        binp = bp.build_harness(race=False)
        trace, hn = bp.run_harness(binp, scs)
        nev, viol, _ = bp.run_bpobs(trace)
        mine = [v for v in viol if v[1] == pid]
        for v in mine:
            print("VIOLATION property=%s replay=%s" % (pid, replay))
            print("  what: %s in scenario %s (event %d)" % (v[2], scs[v[0] - 1].get("id"), v[3]))
        if not mine:
            print("replay: no violation of %s reproduced (%d events judged)" % (pid, nev))
        return 1 if mine else 0

    # 1. exhaustive model checking of the impl spec (design level) -- in the background
    pool = ThreadPoolExecutor(max_workers=3)
    mc_futs = []
    for name, cst in bp.mc_plans(pid, tier_):
        props, spec = bp.mc_props(pid, name)
        mc_futs.append(pool.submit(bp.mc, name, cst, bp.ALL_INVS, props, spec, 5 if quick else 8,
                                   600 if quick else 3000))

    # 1b. the repository's own tests, built with the verif tag, judged at the hook level (BPHookObs.tla)
    rt_fut = None
    if pid in ("C05", "C06", "C09", "C11"):
        import bp_repotests
        rt_fut = pool.submit(bp_repotests.run)

    # 2. behaviours: TLC simulation of BPSim + seeded generator + fixed regression scenarios
    nsim_cfg, nsim = (4, 100) if quick else (16, 400)
    nrand = 150 if quick else 3000
    sim_futs = [pool.submit(bp.simulate, cst, nsim, 120, seed * 131 + i) for i, cst in
                enumerate(bp.sim_plans(pid, rng, nsim_cfg))]
    sim_csts = bp.sim_plans(pid, random.Random(seed * 7919 + int(pid[1:])), nsim_cfg)
    scenarios = fixed_scenarios(pid)
    if pid in ("C06", "C11", "C18"):
        # at the front: the first third of the scenarios runs with a queue of one place
        scenarios.extend(bp.backpressure_scenarios(rng, 24 if quick else 300, seed))
    if pid in ("C05", "C11"):
        # at the front too (a queue of one place): Shutdown while requests are queued, in every send_batch_size / max / timer shape
        scenarios.extend(bp.drain_scenarios(rng, 16 if quick else 200, seed))
    prof = bp.PROFILES[pid]
    for i in range(nrand):
        scenarios.append(bp.random_scenario(rng, "seeded/%d/%d" % (seed, i), prof))
        if pid == "C18" and i % 2:
            bp.add_spans(scenarios[-1], rng)
        if (pid == "C18" and i % 3 == 0) or (pid == "C06" and i % 5 == 0):
            bp.add_deadlines(scenarios[-1], rng)
        if pid in ("C11", "C05") and i % 3 == 0:
            scenarios[-1]["shutctx"] = rng.choice(["cancelled", "cancelled", "deadline"])
    if pid == "C10":
        scenarios.extend(bp.race_scenarios(rng, 450 if quick else 3000, seed))
    if pid == "C11":
        scenarios.extend(bp.storm_scenarios(rng, 180 if quick else 3000, seed))
    if pid == "C09":
        scenarios.extend(bp.trickle_scenarios(rng, 120 if quick else 2000, seed))
    binp_f = pool.submit(bp.build_harness, pid == "C11")
    nbeh = 0
    for k, f in enumerate(sim_futs):
        behs = f.result()
        cst = sim_csts[k]
        for j, b in enumerate(behs):
            nbeh += 1
            scenarios.append(bp.behaviour_to_scenario(b, cst, rng, "tlc/%d/%d/%d" % (seed, k, j)))
            if pid == "C18" and j % 2:
                bp.add_spans(scenarios[-1], rng)
            if pid == "C18" and j % 4 == 0:
                bp.add_deadlines(scenarios[-1], rng)
            if pid in ("C11", "C05") and j % 3 == 0:
                scenarios[-1]["shutctx"] = rng.choice(["cancelled", "cancelled", "deadline"])
    binp = binp_f.result()

    # 3. run the real processor; part of the scenarios with the channel capacity TLC explored (Q=1,2)
    third = len(scenarios) // 3
    parts = [(scenarios[:third], "0"), (scenarios[third:2 * third], "0,1"), (scenarios[2 * third:], None)]
    hfuts = [pool.submit(bp.run_harness, binp, part, cpus, 1500 if quick else 7000) for part, cpus in parts if part]
    traces = []
    offset = 0
    merged = os.path.join(C.scratch("bpall."), "trace.ndjson")
    with open(merged, "w") as out:
        for (part, cpus), hf in zip([p for p in parts if p[0]], hfuts):
            trp, hn = hf.result()
            notes.extend(hn)
            with open(trp) as fh:
                for line in fh:
                    e = json.loads(line)
                    e["tr"] += offset
                    out.write(json.dumps(e) + "\n")
            offset += len(part)
    all_sc = [s for part, _ in parts for s in part]

    # 4. judge every recorded execution with the black-box specification
    nev, viol, obs = bp.run_bpobs(merged, timeout=1200 if quick else 6000)
    stats = bp.trace_stats(merged)

    # 4a. Split.tla: every tree x size on the specification and on the real split functions (C05, C09)
    split = bp.split_vectors(binp, tier_) if pid in ("C05", "C09") and bp.SPLIT_AVAILABLE else None

    # 4b. white-box conformance: every recorded execution must be a behaviour of BatchProcessor.tla (BPTrace.tla)
    conf = bp.run_bptrace(merged, timeout=180 if quick else 3000)

    # 4c. the processor's own instruments, read once per scenario, against the recorded steps (BPTelemetry.tla; drift only)
    tel = bp.run_bptel(merged, timeout=900 if quick else 3000)

    # 5. results of the exhaustive runs
    mcs = [f.result() for f in mc_futs]
    pool.shutdown()
    states = sum(m["distinct"] for m in mcs)
    trans = sum(m["generated"] for m in mcs)
    model_issues = []
    for m in mcs:
        if m["error"]:
            raise C.Inconclusive("TLC run %s: %s\n%s" % (m["name"], m["error"], m["out"][-1500:]))
        if m["violated"]:
            model_issues.append("%s: %s" % (m["name"], m["violated"]))

    found = []
    for tr, prop, clause, seq in viol:
        if prop != pid:
            continue
        sc = all_sc[tr - 1]
        sig = "%s early=%s multi=%s M=%s origin=%s" % (clause, sc["early"], bool(sc["keys"]), sc["M"], sc.get("origin"))
        found.append(dict(signature=sig, what="%s: %s violated in scenario %s at event %d" % (pid, clause, sc["id"], seq),
                          replay=dict(property=pid, clause=clause, scenario=sc, event_seq=seq,
                                      events=bp.scenario_events(merged, tr)[:400])))
    rt = None
    if rt_fut:
        try:
            rt = rt_fut.result()
        except C.Inconclusive as e:
            # the repository's tests are an additional source of executions, not a prerequisite of the verdict
            print("NOTE: the repository's own tests could not be traced on this tree (%s)" % str(e).splitlines()[0][:160])
    if rt:
        seen_rt = set()
        for prop, clause, t, seq in rt["violations"]:
            if prop != pid or (clause, t) in seen_rt:
                continue
            seen_rt.add((clause, t))
            found.append(dict(signature="%s repo-test %s" % (clause, t),
                              what="%s: %s at hook event %d of the repository's own test %s" % (pid, clause, seq, t),
                              replay=dict(property=pid, clause=clause, repo_test=t, event_seq=seq)))
    if split:
        for n_, prop, clause, case in split["violations"]:
            if prop != pid:
                continue
            found.append(dict(signature="%s depth=%s" % (clause, case["depth"]),
                              what="%s: %s on split case %s size %s (%s)" % (pid, clause, json.dumps(case["shape"]), case["size"], case["sig"]),
                              replay=dict(property=pid, clause=clause, split_case=case)))
        model_issues.extend(split["model_issues"])
    # distinct non-trivial executions: at least one export, distinct (config, outcome-shape) signature
    sigs = set()
    for tr, st in stats.items():
        sc = all_sc[tr - 1]
        if st["exports"] == 0:
            continue
        sigs.add((sc["S"], sc["M"], sc["T"], sc["K"], sc["L"], sc["early"], len(sc["callers"]), st["exports"], st["merged"],
                  st["split"], st["cancel"], st["ticks"], st["fail"], st["shards"], tuple(sorted(st["kinds"])),
                  st["maxinflight"], st["mixedctx"], st["timeout_sends"]))
    agg = {k: sum(1 for st in stats.values() if st[k]) for k in
           ("merged", "split", "cancel", "ticks", "fail", "toomany", "timeout_sends", "mixedctx")}
    agg["multi_shard"] = sum(1 for st in stats.values() if st["shards"] > 1)
    agg["max_inflight"] = max([st["maxinflight"] for st in stats.values()] or [0])
    samples = []
    for tr in sorted(stats)[:1] + sorted(stats)[-1:]:
        sc = all_sc[tr - 1]
        samples.append({"scenario": {k: sc[k] for k in ("id", "signal", "S", "M", "T", "K", "L", "early", "keys")},
                        "callers": {c: (v["n"], v["ctx"]) for c, v in sc["callers"].items()},
                        "script": sc["steps"][:25],
                        "trace": ["%s %s%s%s" % (e["ev"], e["c"], e["s"] and "@" + e["s"], e["e"] and " e%d" % e["e"] or "")
                                  for e in bp.scenario_events(merged, tr)[:40]]})
    drift = conf["accepted"] < conf["total"] or conf["errors"] or (split and split["drift"])
    # the evidence file carries the level registered in MANIFEST.json; when the white-box specification did not
    # explain every recorded execution (or a model run failed) the run is only worth "exploration": recorded as level_effective
    level = "model_checking"
    level_effective = "model_checking" if not model_issues and not drift else "exploration"
    cov = dict(
        states=states, transitions=trans, traces_validated_against_impl=conf["accepted"], samples=samples,
        conformance=dict(spec="BPTrace.tla over BatchProcessor.tla", accepted=conf["accepted"], total=conf["total"],
                         events=conf["events"], rejected=conf["rejected"][:5], errors=[e[-300:] for e in conf["errors"][:3]]),
        traces_judged_by_bpobs=len(stats),
        evaluations=len(stats), distinct_nontrivial=len(sigs),
        rule="executions of the real processor (testing/synctest bubble, hook-gated schedules) from TLC-simulated "
             "behaviours of BPSim, a seeded script generator and fixed regression scenarios; each judged by BPObs.tla; "
             "distinct = different (configuration, exports, merges, splits, cancellations, ticks, failures, shards, "
             "return kinds, concurrency) signature with at least one export",
        model_runs=[dict(name=m["name"], distinct=m["distinct"], generated=m["generated"], depth=m["depth"],
                         wall_s=round(m["wall"], 1), constants=m["constants"], violated=m["violated"]) for m in mcs],
        tlc_behaviours_replayed=nbeh, seeded_scenarios=nrand, events_judged=nev, scenario_features=agg,
        harness_aborts=notes[:5], model_issues=model_issues, exhaustive=False, level_effective=level_effective,
    )
    if rt:
        cov["repo_tests"] = dict(spec="BPHookObs.tla", tests_run=rt["tests"], hook_events_judged=rt["events"], failed_tests=rt["failed_tests"][:10],
                                 accounting_drift=len(rt["drift"]), drift_samples=rt["drift"][:3])
        cov["traces_validated_against_impl"] += rt["tests"] - len({d_[2] for d_ in rt["drift"]})
    if split:
        cov["split"] = dict(spec="Split.tla / SplitObs.tla", spec_states=split["states"], cases=split["cases"], real_runs=split["runs"],
                            conformance_drift=len(split["drift"]), samples=split["samples"][:2], exhaustive_within_bounds=True)
        cov["states"] += split["states"]
        cov["transitions"] += split["generated"]
    assumptions = [
        "virtual time of testing/synctest stands for the component's clock; time passes only when every processor goroutine is blocked",
        "TLC explores BatchProcessor.tla exhaustively only within the stated constants (2-3 callers, sizes 1-3, one to three combinations)",
        "the harness cannot force Go's choice among several ready select arms; scripts are preferences, every run is judged as recorded",
        "violations are reported only from traces recorded from the real code (BPObs.tla)",
    ]
    rc = C.verdict(pid, found)
    for rj in conf["rejected"][:5]:
        print("DRIFT (not a verdict): BatchProcessor.tla does not explain event %s of execution %s (after %s)"
              % (json.dumps(rj["rejected_event"]), all_sc[rj["rejected_tr"] - 1]["id"], ",".join(rj["context"][-3:])))
    for d in tel["drift"][:4]:
        print("DRIFT (not a verdict): BPTelemetry.tla: instrument %s of execution %s is not what the recorded steps say" % (d[2], all_sc[d[0] - 1]["id"]))
    if split and split["drift"]:
        print("DRIFT (not a verdict): %d split cases where the real fragments differ from Split.tla's, e.g. %s" % (len(split["drift"]), json.dumps(split["drift"][0])))
    if rt:
        for d_ in rt["drift"][:3]:
            print("DRIFT (not a verdict): hook-level clause %s/%s at event %d of the repository's test %s" % (d_[0], d_[1], d_[3], d_[2]))
        if rt["failed_tests"]:
            print("NOTE: %d of the repository's tests fail when run one by one with the verif tag: %s" % (len(rt["failed_tests"]), rt["failed_tests"][:5]))
    for er in conf["errors"][:2]:
        print("DRIFT (not a verdict): BPTrace run failed: %s" % er[-400:].replace("\n", " | "))
    for mi in model_issues:
        print("MODEL-ISSUE (not a verdict): BatchProcessor.tla run %s" % mi)
    C.write_evidence(pid, tier_, level, cov, assumptions, len(found))
    print("%s (%s): %d executions judged (%d events), %d distinct non-trivial; conformance %d/%d; TLC %d distinct states / %d generated over %d configs; %d violations"
          % (pid, TITLES[pid], len(stats), nev, len(sigs), conf["accepted"], conf["total"], states, trans, len(mcs), len(found)))
    if model_issues and rc == 0:
        return 2
    return rc
