"""Decides one OTAP property (C01-C04, C07, C08, C12-C16); see DESIGN.md section 7."""
import json, os, random, re, sys, time
from concurrent.futures import ThreadPoolExecutor
import common as C
import otap
import rtdiff

def plan_roundtrip(pid, rng, quick):
    signal = {"C01": "traces", "C02": "logs", "C03": "metrics"}[pid]
    n = 260 if quick else 6000
    plan = []
    for i in range(n):
        plan.append(otap.rand_stream(rng, "rt/%s/%d" % (signal, i), signal, [pid]))
    # long streams: dictionary and schema state carried across many batches
    for i in range(6 if quick else 60):
        plan.append(otap.rand_stream(rng, "rt-long/%s/%d" % (signal, i), signal, [pid], nb=rng.choice([10, 15, 20])))
    # a few bigger batches (more parents per table, id deltas > 1 byte)
    for i in range(4 if quick else 40):
        plan.append(otap.rand_stream(rng, "rt-large/%s/%d" % (signal, i), signal, [pid], nb=2, size="large"))
    return plan

PLANS = {"C01": plan_roundtrip, "C02": plan_roundtrip, "C03": plan_roundtrip}

def fixed_plans(pid):
    out = []
    d = os.path.join(C.VERIF, "replays", pid)
    if os.path.isdir(d):
        for f in sorted(os.listdir(d)):
            if f.startswith("finding-") and f.endswith(".json"):
                obj = json.load(open(os.path.join(d, f)))
                st = obj.get("stream", obj)
                if isinstance(st, dict) and "batches" in st:
                    out.append(dict(st, id="fixed/" + f))
    return out

def describe(evs, seq):
    """Short human description of the failing event (for the VIOLATION line and signatures)."""
    for e in evs:
        if e["seq"] == seq:
            return "%s k=%d oc=%s %s %s" % (e["ev"], e["k"], e["oc"], e["err"][:120], ",".join(map(str, e["l"]))[:80])
    return ""

def run(pid, tier_, replay=None):
    if pid not in PLANS:
        print("no check registered for", pid)
        return 2
    seed = C.seed()
    quick = tier_ == "quick"
    rng = random.Random(seed * 104729 + int(pid[1:]))
    if replay:
        obj = json.load(open(replay))
        plan = [obj["stream"]] if "stream" in obj else (obj if isinstance(obj, list) else [obj])
        viol, outs, nev, _ = otap.execute(plan, shards=1)
        mine = [v for v in viol if v[1] == pid]
        for v in mine:
            print("VIOLATION property=%s replay=%s" % (pid, replay))
            print("  what: %s %s" % (v[2], describe(otap.stream_events(outs, v[0]), v[3])))
        if not mine:
            print("replay: no violation of %s reproduced (%d events judged)" % (pid, nev))
        return 1 if mine else 0

    plan = fixed_plans(pid) + PLANS[pid](pid, rng, quick)
    viol, outs, nev, notes = otap.execute(plan, shards=12, timeout=1500 if quick else 7000)
    stats = otap.summarize(outs)
    found = []
    for tr, prop, clause, seq in viol:
        if prop != pid:
            continue
        st = plan[tr - 1]
        evs = otap.stream_events(outs, tr)
        desc = describe(evs, seq)
        if clause == "NotEquivalent":
            enc = [e for e in evs if e["ev"] == "Encode" and e["seq"] < seq][-1]
            dec = [e for e in evs if e["seq"] == seq][0]
            desc = "diff: " + rtdiff.classify(enc["in"], dec["out"])
        sig = "%s | %s | %s" % (clause, st["signal"], desc)
        light = []
        for e in evs:
            e2 = dict(e)
            if e["seq"] > seq:
                break
            light.append(e2)
        found.append(dict(signature=sig, what="%s: %s in stream %s (%s)" % (pid, clause, st["id"], desc),
                          replay=dict(property=pid, clause=clause, stream=st, event_seq=seq, events=light[-4:])))
    # coverage: distinct non-trivial streams = distinct (schema-evolution events, dictionary events, outcome) signatures
    sigs = set()
    agg = {}
    for tr, s in stats.items():
        if s["items"] == 0:
            continue
        sigs.add((tuple(sorted(s["obs"].items())), tuple(sorted(s["enc"].items())), tuple(sorted(s["dec"].items())),
                  len(s["sids"]), s["batches"], tuple(sorted(s["ladder"].items())), len(s["fields"])))
        for k, v in s["obs"].items():
            agg[k] = agg.get(k, 0) + v
    fields = set()
    for s in stats.values():
        fields |= s["fields"]
    samples = []
    for tr in sorted(stats)[:2]:
        st = plan[tr - 1]
        evs = otap.stream_events(outs, tr)
        samples.append({"stream": {k: st[k] for k in ("id", "signal", "opts")}, "batches": st["batches"][:3],
                        "events": [{k: (e[k] if k not in ("in", "out", "obs", "pl") else len(e[k]))
                                    for k in ("ev", "k", "oc", "n", "in", "out", "obs", "pl", "bid")} for e in evs[:8]]})
    cov = dict(evaluations=sum(s["batches"] for s in stats.values()), distinct_nontrivial=len(sigs),
               rule="stream histories (seeded adversarial generator over zero/empty/boundary/repeated/type-confusable values, "
                    "growing and shrinking richness so optional columns and dictionaries evolve, near-identical resources/scopes) "
                    "encoded and decoded by the real producer/consumer; every batch judged by OtapObs.tla/RoundTrip.tla (TLC); "
                    "distinct = different (schema/dictionary events, outcomes, schema ids, batches, optional fields) signature of a stream with items",
               samples=samples, traces_validated_against_impl=len(stats), events_judged=nev,
               items_round_tripped=sum(s["items"] for s in stats.values()),
               observer_events=agg, optional_fields_seen=len(fields), streams=len(stats), exhaustive=False)
    assumptions = ["the generic dump of harness/otap/dump.go lists every data-model field of docs/data_model.md",
                   "values come from finite alphabets and a seeded generator: a lossy encoding of a value class no generator produces is not found",
                   "RoundTrip.tla applies exactly the four documented normalisations to both sides"]
    clusters = {}
    for f in found:
        key = re.sub(r"\d+", "N", f["signature"])
        clusters[key] = clusters.get(key, 0) + 1
    for k, v in sorted(clusters.items(), key=lambda kv: -kv[1])[:12]:
        print("  cluster %4d x %s" % (v, k))
    rc = C.verdict(pid, found)
    C.write_evidence(pid, tier_, "exploration", cov, assumptions, len(found))
    print("%s: %d streams, %d batches, %d items round-tripped, %d events judged by TLC, %d distinct non-trivial; %d violations"
          % (pid, len(stats), cov["evaluations"], cov["items_round_tripped"], nev, len(sigs), len(found)))
    return rc
