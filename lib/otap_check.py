"""Decides one OTAP property (C01-C04, C07, C08, C12-C16); see DESIGN.md section 7."""
import json, os, random, re, sys, time
from concurrent.futures import ThreadPoolExecutor
import common as C
import otap
import rtdiff

def plan_roundtrip(pid, rng, quick):
    signal = {"C01": "traces", "C02": "logs", "C03": "metrics"}[pid]
    n = 260 if quick else 24000
    plan = []
    for i in range(n):
        plan.append(otap.rand_stream(rng, "rt/%s/%d" % (signal, i), signal, [pid]))
    # the corners of the ordering-option lattice (everything unordered / everything on its last variant), rich batches
    for i in range(4 if quick else 60):
        k = [0, -1][i % 2]
        o = {"hasOrder": True, "orderSpan": otap.ORDER_SPAN[k], "attrs16": otap.ATTRS16[k], "attrs32": otap.ATTRS32[k], "zstd": i % 4 < 2}
        st = otap.rand_stream(rng, "rt-corner/%s/%d" % (signal, i), signal, [pid], opts=o, nb=3, size="medium")
        for b in st["batches"]:
            b["rich"] = 2
        plan.append(st)
    # long streams: dictionary and schema state carried across many batches
    for i in range(6 if quick else 300):
        plan.append(otap.rand_stream(rng, "rt-long/%s/%d" % (signal, i), signal, [pid], nb=rng.choice([10, 15, 20])))
    # a few bigger batches (more parents per table, id deltas > 1 byte)
    for i in range(4 if quick else 160):
        plan.append(otap.rand_stream(rng, "rt-large/%s/%d" % (signal, i), signal, [pid], nb=2, size="large"))
    # big but valid batches (tens of thousands of attribute-bearing parents, still <= 65,535), first on the stream
    # (schema updates rebuild the record several times) and after a warm-up
    withs = {"traces": ["spanattr", "event", "link"], "logs": ["logattr"], "metrics": ["dpattr"]}[signal]
    for i in range(4 if quick else 12):
        n_ = rng.choice([33000, 40000, 65535])
        big = {"gen": "parents", "n": n_, "nres": rng.choice([1, 3]), "with": rng.choice(withs), "nodump": True}
        bs = [big] if i % 2 == 0 else [otap.rand_batch(rng, rich=2), big]
        bs.append(otap.rand_batch(rng, rich=1))
        plan.append({"id": "rt-big/%s/%d" % (signal, i), "signal": signal, "opts": {}, "batches": bs, "props": [pid], "mode": 0, "nowire": True})
    # every sibling record of one shape (all attribute maps alike, every metric kind, exemplars / events / links with attributes)
    for i in range(4 if quick else 200):
        v = 1 + i % 3
        bs = [uniform_batch(rng, v), uniform_batch(rng, v), uniform_batch(rng, 1 + (v % 3)), otap.rand_batch(rng, rich=2)]
        plan.append({"id": "rt-uniform/%s/%d" % (signal, i), "signal": signal, "opts": otap.opts_random(rng) if i % 2 else {},
                     "batches": bs, "props": [pid], "mode": 0})
    # an emitted batch is a value of its own: the consumer is one or more batches behind the producer (queue, retry buffer)
    for i in range(24 if quick else 900):
        st = otap.rand_stream(rng, "rt-lag/%s/%d" % (signal, i), signal, [pid], nb=rng.choice([3, 4, 6]))
        if i % 3 == 0:      # the same input again: messages of equal size on the same sub-streams
            st["batches"] = [st["batches"][0]] + [{"resend": 1} for _ in range(len(st["batches"]) - 1)]
        st["lag"] = rng.choice([1, 1, 2, 99])
        st["nowire"] = True
        plan.append(st)
    # a refused batch (more resources than 16-bit ids) must not disturb the batches that follow it
    for i in range(3 if quick else 12):
        bs = [otap.rand_batch(rng, rich=2), {"gen": "parents", "n": rng.choice([65536, 65540]), "nres": 70000, "with": "resattr", "nodump": True},
              otap.rand_batch(rng, rich=2), otap.rand_batch(rng, rich=1)]
        plan.append({"id": "rt-after-refusal/%s/%d" % (signal, i), "signal": signal, "opts": {}, "batches": bs,
                     "props": [pid], "mode": 2, "nowire": True})
    return plan

def uniform_batch(rng, variant):
    return {"gen": "uniform", "n": variant, "seed": rng.randint(1, 1 << 40), "rich": 2, "guarded": True, "maxRes": 2, "maxScope": 2, "maxItems": 6}

def ramp(signal, n, distinct, base, col, nodump=True):
    return {"gen": "ramp", "n": n, "distinct": distinct, "base": base, "col": col, "nodump": nodump}

# "all": every dictionary column of the record grows in the same batch (several schema updates at once)
RAMP_COLS = {"traces": ["name", "attr", "event", "tracestate", "all"], "logs": ["body", "sevtext", "attr", "attrkey", "all"],
             "metrics": ["name", "attr", "unit", "all"]}

def ramp_history(rng, signal, regime, cap, nb):
    """Cardinality ramp for one column. regime 'overflow': every batch brings new values (low reuse);
    'reset': many batches over a tiny alphabet (high reuse), then a burst of distinct values;
    'cross': cumulative cardinality crosses `cap` slowly."""
    col = rng.choice(RAMP_COLS[signal])
    out = []
    if regime == "overflow":
        per = max(2, (cap * 2) // nb)
        for k in range(nb):
            out.append(ramp(signal, per, per, k * per, col))
    elif regime == "reset":
        for k in range(nb - 2):
            out.append(ramp(signal, rng.choice([200, 500]), 3, 0, col))
        out.append(ramp(signal, cap + rng.choice([1, 45]), cap + rng.choice([1, 45]), 1000, col))
        out.append(ramp(signal, 50, 5, 0, col, nodump=False))
    else:
        per = max(2, (cap + 40) // max(1, nb - 1))
        for k in range(nb):
            out.append(ramp(signal, per + 10, per, k * per, col))
    return out

def multi_column_bursts(plan, rng, quick, nodecode):
    """Many dictionary columns of one record cross an index-width boundary (255, or the configured limit) in the same
    batch - first on the stream and after a warm-up - in the widen, overflow and reset regimes."""
    for signal in ("traces", "logs", "metrics"):
        for d, thr in ([("", None), ("8", None), ("8", 0.5)] if quick else [("", None), ("8", None), ("8", 0.5), ("8", 0.0), ("16", None), ("none", None)]):
            for warm in (False, True):
                o = {"dict": d} if d else {}
                if thr is not None:
                    o["thr"] = thr
                bs = []
                if warm:
                    bs += [ramp(signal, 200, 3, 0, "all", nodump=False) for _ in range(3)]
                bs += [ramp(signal, 300, 300, 1000, "all", nodump=False), ramp(signal, 20, 5, 0, "all", nodump=False)]
                st = {"id": "burst-all/%s/%s/%s/%s" % (signal, d or "default", thr, warm), "signal": signal, "opts": o, "batches": bs,
                      "props": [], "mode": 0, "nowire": True}
                if nodecode:
                    st["nodecode"] = True
                plan.append(st)

def plan_c08(pid, rng, quick):
    plan = []
    n = 150 if quick else 12000
    for i in range(n):
        signal = rng.choice(["traces", "logs", "metrics"])
        st = otap.rand_stream(rng, "ung/%s/%d" % (signal, i), signal, [], guarded=False,
                              opts=otap.opts_random(rng) if rng.random() < 0.3 else None)
        st["nowire"] = True
        st["nodecode"] = True
        plan.append(st)
    # sparse first batches: list / struct columns introduced with only zeros (in-domain, default options)
    for i in range(120 if quick else 9000):
        signal = rng.choice(["metrics", "metrics", "traces", "logs"])
        st = otap.rand_stream(rng, "zero-first/%s/%d" % (signal, i), signal, [], nb=rng.choice([1, 2, 3]))
        for b in st["batches"][:1]:
            b["rich"] = 0
        st["nowire"] = True
        st["nodecode"] = True
        plan.append(st)
    # more parents than a 16-bit id can number
    sizes = [65535, 65536, 65537] if quick else [65534, 65535, 65536, 65537, 70000, 131073]
    for n_ in ([65536, 65537, 80000] if quick else [65536, 65537, 70000, 80000, 131073, 196609]):
        plan.append({"id": "parents/traces/mixed/%d" % n_, "signal": "traces", "opts": {},
                     "batches": [{"gen": "parents", "n": n_, "nres": 1, "with": "mixed", "nodump": True}, otap.rand_batch(rng, rich=1)],
                     "props": [], "mode": 2, "nowire": True, "nodecode": True})
    kinds = [("traces", "spanattr", 1), ("traces", "event", 1), ("traces", "link", 1), ("traces", "resattr", 0),
             ("traces", "plain", 1), ("logs", "logattr", 1), ("logs", "resattr", 0), ("logs", "plain", 1),
             ("metrics", "dpattr", 1), ("metrics", "resattr", 0), ("metrics", "plain", 1)]
    for signal, with_, nres in kinds:
        for n_ in sizes:
            for pre in ([False] if quick else [False, True]):
                batches = []
                if pre:
                    batches.append(otap.rand_batch(rng, rich=2))
                batches.append({"gen": "parents", "n": n_, "nres": nres or n_, "with": with_, "nodump": True})
                batches.append(otap.rand_batch(rng, rich=1))
                plan.append({"id": "parents/%s/%s/%d/%s" % (signal, with_, n_, pre), "signal": signal, "opts": {},
                             "batches": batches, "props": [], "mode": 2, "nowire": True, "nodecode": True})
    # the same with parents whose only attributes are ones the encoder skips (they need an id but add no row), and
    # warm histories: a small batch of the same shape first (no new column is requested later), the over-size batch
    # (refused or not), then small batches of that shape again
    for signal, with_, nres in [("traces", "spanattr-ignored", 1), ("logs", "logattr-ignored", 1), ("metrics", "dpattr-ignored", 1)] + \
                               [k for k in kinds if k[1] != "plain"]:
        for n_ in ([65537] if quick else [65536, 65537, 70000]):
            small = {"gen": "parents", "n": 3 if nres else 70, "nres": nres or 3, "with": with_, "nodump": True}
            big = {"gen": "parents", "n": n_, "nres": nres or n_, "with": with_, "nodump": True}
            plan.append({"id": "parents-warm/%s/%s/%d" % (signal, with_, n_), "signal": signal, "opts": {},
                         "batches": [dict(small), big] + [dict(small) for _ in range(7)], "props": [], "mode": 2, "nowire": True, "nodecode": True})
            if "ignored" in with_:
                plan.append({"id": "parents/%s/%s/%d" % (signal, with_, n_), "signal": signal, "opts": {},
                             "batches": [big, otap.rand_batch(rng, rich=1)], "props": [], "mode": 2, "nowire": True, "nodecode": True})
    multi_column_bursts(plan, rng, quick, nodecode=True)
    # dictionary regimes (valid input under every dictionary option)
    for i in range(24 if quick else 900):
        signal = rng.choice(["traces", "logs", "metrics"])
        d = rng.choice(["8", "8", "16", "", "none"])
        cap = {"8": 255, "16": 65535, "": 65535, "none": 300}[d]
        if cap > 1000 and quick and rng.random() < 0.7:
            d, cap = "8", 255
        o = {"dict": d}
        t = rng.choice([None, 0.0, 0.3, 1.0, -1.0])
        if t is not None:
            o["thr"] = t
        plan.append({"id": "dict/%s/%s/%d" % (signal, d, i), "signal": signal, "opts": o,
                     "batches": ramp_history(rng, signal, rng.choice(["overflow", "reset", "cross"]), cap, rng.choice([4, 8, 22])),
                     "props": [], "mode": 2, "nowire": True, "nodecode": True})
    return plan

def plan_c15(pid, rng, quick):
    plan = []
    for i in range(120 if quick else 12000):
        signal = rng.choice(["traces", "logs", "metrics"])
        st = otap.rand_stream(rng, "mem/%s/%d" % (signal, i), signal, [], guarded=rng.random() < 0.7,
                              opts=otap.opts_random(rng) if rng.random() < 0.5 else None)
        if rng.random() < 0.3:   # mixed signals on one producer
            for b in st["batches"]:
                b["signal"] = rng.choice(["traces", "logs", "metrics"])
        for b in st["batches"]:
            if rng.random() < 0.15 and "resend" not in b:
                b["resend"] = 1
        st["nowire"] = True
        st["nodecode"] = True
        plan.append(st)
    # encode errors in the middle of a history (more resources than 16-bit ids), then normal batches
    for signal in ("traces", "logs", "metrics"):
        for n_ in ([65540] if quick else [65536, 65540, 70000]):
            plan.append({"id": "mem-err/%s/%d" % (signal, n_), "signal": signal, "opts": {},
                         "batches": [otap.rand_batch(rng, rich=2),
                                     {"gen": "parents", "n": n_, "nres": n_, "with": "resattr", "nodump": True},
                                     otap.rand_batch(rng, rich=2), otap.rand_batch(rng, rich=1)],
                         "props": [], "mode": 2, "nowire": True, "nodecode": True})
    # the same, with the schema already up to date when the refused batch arrives (a warm-up batch of the same shape):
    # the half-written row is then discarded without any schema update
    for signal, with_ in (("traces", "spanattr"), ("traces", "event"), ("traces", "link"), ("traces", "resattr"), ("logs", "logattr"),
                          ("logs", "resattr"), ("metrics", "dpattr"), ("metrics", "resattr"), ("traces", "mixed")):
        nres = 0 if with_ == "resattr" else 1
        warm = {"gen": "parents", "n": 12, "nres": nres or 12, "with": with_, "nodump": True}
        big = {"gen": "parents", "n": 65540 if with_ != "mixed" else 80000, "nres": nres or 65540, "with": with_, "nodump": True}
        plan.append({"id": "mem-err-warm/%s/%s" % (signal, with_), "signal": signal, "opts": {},
                     "batches": [warm, dict(warm), big, dict(warm), otap.rand_batch(rng, rich=2)],
                     "props": [], "mode": 2, "nowire": True, "nodecode": True})
    # overflow / reset / rebuild paths
    for i in range(18 if quick else 600):
        signal = rng.choice(["traces", "logs", "metrics"])
        d = rng.choice(["8", "8", "16"]) if not quick else "8"
        cap = {"8": 255, "16": 65535}[d]
        o = {"dict": d}
        t = rng.choice([None, 0.0, 1.0, -1.0])
        if t is not None:
            o["thr"] = t
        plan.append({"id": "mem-dict/%s/%s/%d" % (signal, d, i), "signal": signal, "opts": o,
                     "batches": ramp_history(rng, signal, rng.choice(["overflow", "reset", "cross"]), cap, rng.choice([4, 8])),
                     "props": [], "mode": 2, "nowire": True, "nodecode": True})
    # an encode error INSIDE Produce: the caller-supplied allocator refuses (panics, like the repository's LimitedAllocator)
    # while the k-th record of a batch is written to its IPC stream; the batch is refused, the stream goes on, and Close
    # must still give everything back
    for signal in ("traces", "logs", "metrics"):
        for rep in range(4 if quick else 40):
            bs = [otap.rand_batch(rng, rich=2) for _ in range(rng.choice([1, 3]))]
            bs.append(dict(otap.rand_batch(rng, rich=2), allocfail=1 + rep % 4))
            bs += [otap.rand_batch(rng, rich=2), otap.rand_batch(rng, rich=1)]
            plan.append({"id": "mem-allocfail/%s/%d" % (signal, rep), "signal": signal, "opts": otap.opts_random(rng) if rep % 2 else {},
                         "batches": bs, "props": [], "mode": 2, "nowire": True, "nodecode": True})
    return plan

def plan_wire(pid, rng, quick):
    """C12 / C13: what an independent Arrow reader sees on the wire."""
    plan = []
    for i in range(110 if quick else 9000):
        signal = rng.choice(["traces", "logs", "metrics"])
        o = otap.opts_random(rng) if rng.random() < 0.6 else {}
        st = otap.rand_stream(rng, "wire/%s/%d" % (signal, i), signal, [], opts=o, nb=rng.choice([2, 3, 5, 8]))
        if rng.random() < 0.5:   # interleaved signals on one producer
            for b in st["batches"]:
                b["signal"] = rng.choice(["traces", "logs", "metrics"])
        st["nodecode"] = True
        plan.append(st)
    # a refused request in the middle of a walked stream: batch ids count the EMITTED batches
    for signal, with_ in (("traces", "spanattr"), ("logs", "logattr"), ("metrics", "plain")):
        for rep in range(1 if quick else 4):
            big = {"gen": "parents", "n": 65537 if with_ != "plain" else 65540, "nres": 1, "with": with_, "nodump": True}
            bs = [otap.rand_batch(rng, rich=2), big, otap.rand_batch(rng, rich=2), otap.rand_batch(rng, rich=1)]
            if rep % 2:
                bs.insert(0, dict(otap.rand_batch(rng, rich=1), signal=rng.choice(["traces", "logs", "metrics"])))
            plan.append({"id": "wire-refused/%s/%d" % (signal, rep), "signal": signal, "opts": {}, "batches": bs,
                         "props": [], "mode": 2, "nodecode": True})
    # a fault INSIDE Produce (all records built, the allocator fails while a record is written to its IPC stream) in the
    # middle of a stream: the call returns an error, nothing is emitted, and the batch ids of the emitted batches still
    # count up by one.  (The wire is not walked: on the unchanged tree the half-written IPC message makes the sub-stream
    # undecodable from then on - a fault inside the IPC writer is outside the domain of the IPC clauses, as in C07.)
    for signal in ("traces", "logs", "metrics"):
        for rep in range(2 if quick else 8):
            bs = [otap.rand_batch(rng, rich=2) for _ in range(rng.choice([2, 3]))]
            bs.append(dict(otap.rand_batch(rng, rich=2), allocfail=1 + rep % 3))
            bs += [otap.rand_batch(rng, rich=2), otap.rand_batch(rng, rich=1)]
            if rep % 2:
                bs.insert(len(bs) - 1, dict(otap.rand_batch(rng, rich=2), allocfail=rng.choice([1, 2, 4])))
            plan.append({"id": "wire-allocfail/%s/%d" % (signal, rep), "signal": signal, "opts": otap.opts_random(rng) if rep % 2 else {},
                         "batches": bs, "props": [], "mode": 2, "nodecode": True, "nowire": True})
    # sibling records of one shape: every attribute map of a batch has the same columns, every metric kind and every
    # exemplar / event / link attribute record occurs, so all records of one family share an Arrow schema signature
    for signal in ("traces", "logs", "metrics"):
        for variant in (1, 2, 3):
            for rep in range(1 if quick else 6):
                o = otap.opts_random(rng) if rep % 2 else {}
                bs = [uniform_batch(rng, variant) for _ in range(2)] + [uniform_batch(rng, 1 + variant % 3)]
                if rep % 3 == 2 or quick:
                    bs.append(dict(uniform_batch(rng, variant), signal=rng.choice(["traces", "logs", "metrics"])))
                    bs.append(uniform_batch(rng, variant))
                plan.append({"id": "wire-uniform/%s/v%d/%d" % (signal, variant, rep), "signal": signal, "opts": o, "batches": bs,
                             "props": [], "mode": 0, "nodecode": True})
    # long unbounded-cardinality streams under the default (16-bit) limit: more than twice 65,535 distinct values in one
    # column, so that a dictionary that is widened or restarted instead of being dropped shows up on the wire
    # (body and attribute values are 16-bit-declared dictionary columns, names and severity texts start with 8 bits)
    deep = [("logs", "body"), ("traces", "name"), ("traces", "attr"), ("metrics", "attr"), ("logs", "attr"), ("logs", "sevtext"), ("metrics", "name")]
    for signal, col in (deep[:3] if quick else deep):
        for d in ([""] if quick else ["", "16"]):
            o = {"dict": d} if d else {}
            plan.append({"id": "wire-deep/%s/%s/%s" % (signal, col, d or "default"), "signal": signal, "opts": o,
                         "batches": [ramp(signal, 10000, 10000, k * 10000, col) for k in range(15)],
                         "props": [], "mode": 2, "nodecode": True})
    # a narrow-declared column (8-bit index first) that jumps over EVERY index width in one record: a long high-reuse
    # history (<= 200 distinct values, > 220,000 values in all), then one batch that takes the cumulative cardinality beyond
    # 65,535 while holding fewer distinct values itself - updateIndexType ends in its reset branch from a non-top level
    # (Dictionary.tla: Update with lvl = 1, Climb > L, ratio below the threshold)
    jumps = [("logs", "sevtext"), ("traces", "name"), ("metrics", "name"), ("metrics", "unit")]
    for signal, col in (jumps[:2] if quick else jumps):
        for d in ([""] if quick else ["", "16", "32"]):
            plan.append({"id": "wire-jump/%s/%s/%s" % (signal, col, d or "default"), "signal": signal, "opts": {"dict": d} if d else {},
                         "batches": [ramp(signal, 50000, 200, 0, col) for _ in range(5)] +
                                    [ramp(signal, 65400, 65400, 1000, col), ramp(signal, 50, 5, 0, col, nodump=False),
                                     ramp(signal, 300, 300, 200000, col, nodump=False)],
                         "props": [], "mode": 2, "nodecode": True})
    dicts = ["8", "8", "16", "", "none", "32", "64"]
    for i in range(36 if quick else 1200):
        signal = rng.choice(["traces", "logs", "metrics"])
        d = rng.choice(dicts)
        cap = {"8": 255, "16": 65535, "": 65535, "none": 300, "32": 70000, "64": 70000}[d]
        if cap > 1000 and quick and rng.random() < 0.8:
            d, cap = "8", 255
        o = {"dict": d, "zstd": rng.choice([True, False])}
        t = rng.choice([None, 0.0, 0.3, 1.0, -1.0])
        if t is not None:
            o["thr"] = t
        regime = rng.choice(["overflow", "reset", "cross"])
        if i < 12:
            # always present, whatever the seed draws: the reset regime (high reuse, then one batch that alone exceeds the
            # limit) under every threshold that allows a reset, for every signal - the history behind finding F07 and the
            # seeded changes C13-m1 / C13-m4 / C13-m5 / C13-m7
            signal, regime, d, cap = ["traces", "logs", "metrics"][i % 3], "reset", "8", 255
            o = {"dict": d, "zstd": i % 2 == 0}
            t = [None, 0.3, 1.0, -1.0][i % 4]
            if t is not None:
                o["thr"] = t
        plan.append({"id": "wire-dict/%s/%s/%d" % (signal, d, i), "signal": signal, "opts": o,
                     "batches": ramp_history(rng, signal, regime, cap, rng.choice([4, 8, 22]) if i >= 12 else 8),
                     "props": [], "mode": 2, "nodecode": True})
    return plan

def plan_c04(pid, rng, quick):
    """Options never change content: option product x schema-evolution histories, default consumer."""
    plan = []
    product = [(d, t, z, os_, a16, a32) for d in otap.DICTS for t in (None, 0.0, 1.0, -1.0) for z in (True, False)
               for os_ in otap.ORDER_SPAN for a16 in otap.ATTRS16 for a32 in otap.ATTRS32]
    rng.shuffle(product)
    # the corners of the ordering lattice (everything unordered, everything on its last variant, one unordered) are always
    # part of the sample: code that keys on a *combination* of options only shows there
    corners = [c for c in product if (c[3], c[4], c[5]) in (("", "", ""), (otap.ORDER_SPAN[-1], otap.ATTRS16[-1], otap.ATTRS32[-1]),
                                                           ("", otap.ATTRS16[-1], otap.ATTRS32[-1]), (otap.ORDER_SPAN[-1], "", ""))]
    pick = (corners[:24] + product[:146]) if quick else product
    for i, (d, t, z, os_, a16, a32) in enumerate(pick):
        o = {"dict": d, "zstd": z, "hasOrder": True, "orderSpan": os_, "attrs16": a16, "attrs32": a32}
        if t is not None:
            o["thr"] = t
        # the remaining public options: initial index width (not above the limit) and the statistics switches
        lim = {"": 16, "none": 0, "8": 8, "16": 16, "32": 32, "64": 64}[d]
        ok = [w for w in ("8", "16", "32", "64") if int(w) <= lim]
        if ok and i % 3 == 0:
            o["init"] = ok[(i // 3) % len(ok)]
        if i % 4 == 1:
            o["stats"] = ["ratio", "producer", "ratio,producer"][(i // 4) % 3]
        signal = ["traces", "logs", "metrics"][i % 3] if not quick else rng.choice(["traces", "traces", "logs", "metrics"])
        if quick and i < 24:
            signal = ["traces", "traces", "metrics", "logs"][i % 4]
        st = otap.rand_stream(rng, "opt/%s/%d" % (signal, i), signal, ["C04"], opts=o, nb=rng.choice([2, 3, 4]))
        if quick and i < 24:
            for b in st["batches"]:
                b.update(rich=2, maxItems=8)
        plan.append(st)
    # index-width state machine under the dictionary sub-lattice: ramps crossing 255 / 65535 / the limit
    dl = [("8", 255), ("16", 65535), ("", 65535), ("32", 65535), ("64", 65535), ("none", 300)]
    for i in range(54 if quick else 1500):
        signal = rng.choice(["traces", "logs", "metrics"])
        d, cap = rng.choice(dl)
        if cap > 1000 and quick and rng.random() < 0.85:
            d, cap = "8", 255
        o = {"dict": d}
        regime = rng.choice(["overflow", "reset", "reset", "cross"])
        t = rng.choice([None, 0.3, 1.0, -1.0] if regime == "reset" else [None, 0.0, 0.3, 1.0, -1.0])
        if t is not None:
            o["thr"] = t
        bs = ramp_history(rng, signal, regime, cap, rng.choice([4, 8]))
        for b in bs:
            if b["n"] <= 600:
                b["nodump"] = False
        bs.append(otap.rand_batch(rng, rich=2))
        plan.append({"id": "opt-ramp/%s/%s/%d" % (signal, d, i), "signal": signal, "opts": o, "batches": bs,
                     "props": ["C04"], "mode": 0, "nowire": True})
    n0 = len(plan)
    multi_column_bursts(plan, rng, quick, nodecode=False)
    for st in plan[n0:]:
        st["props"] = ["C04"]
    return plan

ALL_TYPES = {"traces": ["SPANS", "RESOURCE_ATTRS", "SCOPE_ATTRS", "SPAN_ATTRS", "SPAN_EVENTS", "SPAN_LINKS", "SPAN_EVENT_ATTRS", "SPAN_LINK_ATTRS"],
             "logs": ["LOGS", "RESOURCE_ATTRS", "SCOPE_ATTRS", "LOG_ATTRS"],
             "metrics": ["UNIVARIATE_METRICS", "RESOURCE_ATTRS", "SCOPE_ATTRS", "NUMBER_DATA_POINTS", "SUMMARY_DATA_POINTS", "HISTOGRAM_DATA_POINTS",
                         "EXP_HISTOGRAM_DATA_POINTS", "NUMBER_DP_ATTRS", "SUMMARY_DP_ATTRS", "HISTOGRAM_DP_ATTRS", "EXP_HISTOGRAM_DP_ATTRS",
                         "NUMBER_DP_EXEMPLARS", "HISTOGRAM_DP_EXEMPLARS", "EXP_HISTOGRAM_DP_EXEMPLARS", "NUMBER_DP_EXEMPLAR_ATTRS",
                         "HISTOGRAM_DP_EXEMPLAR_ATTRS", "EXP_HISTOGRAM_DP_EXEMPLAR_ATTRS"]}
RELABEL = {"traces": ["SPANS", "SPAN_ATTRS", "SPAN_EVENTS", "RESOURCE_ATTRS", "LOGS", "UNKNOWN"],
           "logs": ["LOGS", "LOG_ATTRS", "RESOURCE_ATTRS", "SPANS", "UNKNOWN"],
           "metrics": ["UNIVARIATE_METRICS", "NUMBER_DATA_POINTS", "NUMBER_DP_ATTRS", "RESOURCE_ATTRS", "SPANS", "UNKNOWN"]}

def fault_alphabet(signal, positions):
    ops = []
    for i in positions:
        for t in RELABEL[signal]:
            ops.append(["relabel", i, t])
        ops += [["drop", i], ["dup", i], ["empty", i], ["unknownSid", i], ["staleSid", i]]
        for j in positions:
            if j > i:
                ops.append(["swap", i, j])
    return ops

def plan_c07(pid, rng, quick):
    """Every valid prefix (0-3 batches, so readers and dictionaries are in arbitrary states), then one batch altered by
    1-2 payload-level faults, then optionally a valid follow-up batch (the two-step histories)."""
    plan = []
    positions = [0, 1, 2, 5] if quick else [0, 1, 2, 3, 5, 8]
    for signal in ("traces", "logs", "metrics"):
        alphabet = fault_alphabet(signal, positions)
        for prefix in ((0, 1, 2) if quick else (0, 1, 2, 3)):
            for op in alphabet:
                for follow in (0, 1):
                    if quick and rng.random() < 0.45:
                        continue
                    bs = []
                    for k in range(prefix):
                        bs.append(otap.rand_batch(rng, rich=rng.choice([1, 2, 2]), twins=False, size="small"))
                    fb = otap.rand_batch(rng, rich=2, twins=False, size="small")
                    fb["maxItems"] = 3
                    fb["faults"] = [op]
                    bs.append(fb)
                    for k in range(follow):
                        fo = otap.rand_batch(rng, rich=rng.choice([1, 2]), twins=False)
                        if rng.random() < 0.4:   # another signal: every sub-stream of the follow-up is new
                            fo["signal"] = rng.choice([x for x in ("traces", "logs", "metrics") if x != signal])
                        bs.append(fo)
                    plan.append({"id": "fault/%s/p%d/%s/f%d" % (signal, prefix, "-".join(map(str, op)), follow),
                                 "signal": signal, "opts": {}, "batches": bs, "props": [], "mode": 0, "nowire": True})
        # pairs of faults
        for i in range(60 if quick else 8000):
            prefix = rng.choice([0, 1, 2])
            bs = [otap.rand_batch(rng, rich=rng.choice([1, 2]), twins=False) for _ in range(prefix)]
            fb = otap.rand_batch(rng, rich=2, twins=False)
            fb["faults"] = [rng.choice(alphabet), rng.choice(alphabet)]
            bs.append(fb)
            if rng.random() < 0.5:
                bs.append(otap.rand_batch(rng, rich=2, twins=False))
            plan.append({"id": "fault2/%s/%d" % (signal, i), "signal": signal, "opts": {}, "batches": bs, "props": [],
                         "mode": 0, "nowire": True})
        # established sub-streams (the faulted batch continues them: its payloads carry no schema message), one payload
        # duplicated and the copy altered.  This family is the shape of the counterexamples TLC finds for Stream.tla's
        # specification mutants (a reader advanced again after it handed out the main record).
        foreign = [t for t in RELABEL[signal] if t not in (RELABEL[signal][0],)] + ["MULTIVARIATE_METRICS"]
        k = 0
        for prefix in (1, 2):
            for i in (0, 1, 2):
                seconds = [["relabel", -1, t] for t in foreign] + [["empty", -1], ["unknownSid", -1], ["staleSid", -1], ["drop", i],
                                                                    ["swap", i, -1], ["dup", -1]]
                for second in seconds:
                    if quick and i > 0 and rng.random() < 0.5:
                        continue
                    first = otap.rand_batch(rng, rich=2, twins=False, size="medium") if k % 2 else ramp(signal, 12, 4, 0, RAMP_COLS[signal][1], nodump=False)
                    k += 1
                    bs = [first] + [{"resend": 1} for _ in range(prefix - 1)] + [{"resend": 1, "faults": [["dup", i], second]}]
                    if rng.random() < 0.5:
                        bs.append({"resend": 1})
                    plan.append({"id": "established/%s/p%d/dup%d-%s" % (signal, prefix, i, "-".join(map(str, second))), "signal": signal,
                                 "opts": {}, "batches": bs, "props": [], "mode": 0, "nowire": True})
        # the main record under every other label the signal knows (with and without a genuine payload of that type in
        # the batch) and under foreign labels: the batch still holds the main record, so success without it is a loss
        for t in ALL_TYPES[signal][1:] + ["UNKNOWN", "MULTIVARIATE_METRICS", {"traces": "LOGS", "logs": "SPANS", "metrics": "SPANS"}[signal]]:
            for variant in (0, 1):
                first = uniform_batch(rng, 2) if variant == 0 else ramp(signal, 9, 3, 0, RAMP_COLS[signal][1], nodump=False)
                bs = [first, {"resend": 1, "faults": [["relabel", 0, t]]}, {"resend": 2}]
                plan.append({"id": "main-as/%s/%s/%d" % (signal, t, variant), "signal": signal, "opts": {}, "batches": bs,
                             "props": [], "mode": 0, "nowire": True})
        # the same with a BARE main record (items without attributes, events, links or data-point children: the optional `id`
        # column is absent altogether, so nothing in the record contradicts another label by its type)
        for t in ALL_TYPES[signal][1:] + ["UNKNOWN"]:
            for prefix in (1, 2):
                first = {"gen": "parents", "n": 3, "nres": 1, "with": "plain", "nodump": False}
                bs = [first] + [{"resend": 1} for _ in range(prefix - 1)] + [{"resend": 1, "faults": [["relabel", 0, t]]}, {"resend": 2}]
                plan.append({"id": "bare-main-as/%s/%s/p%d" % (signal, t, prefix), "signal": signal, "opts": {}, "batches": bs,
                             "props": [], "mode": 0, "nowire": True})
        # boundary batches on a healthy stream: the full range of the 16-bit resource ids (65,535 and 65,536 resources in one
        # batch, with and without resource attributes) - whatever the producer emits, the consumer must return
        for nres, with_ in (((65536, "resattr1"), (65535, "resattr")) if quick else ((65536, "resattr1"), (65535, "resattr"), (65536, "plain"), (65535, "resattr1"))):
            if True:
                big = {"gen": "parents", "n": nres, "nres": nres, "with": with_, "nodump": True}
                plan.append({"id": "boundary/%s/%d/%s" % (signal, nres, with_), "signal": signal, "opts": {},
                             "batches": [otap.rand_batch(rng, rich=2), big, otap.rand_batch(rng, rich=1)],
                             "props": [], "mode": 2, "nowire": True})
        # healthy streams: a well-formed batch on a healthy stream is decoded completely
        for i in range(20 if quick else 1200):
            plan.append(otap.rand_stream(rng, "healthy/%s/%d" % (signal, i), signal, []))
    # behaviours generated by TLC from the implementation-level specification (StreamSim.tla over Stream.tla)
    plan.extend(otap.stream_behaviours(150 if quick else 4000, C.seed() * 17 + 3, rng, timeout=300 if quick else 3000))
    return plan

def plan_c14(pid, rng, quick):
    """The same stream fed to consumers with limits from a few bytes to the default 70 MiB."""
    plan = []
    ladder = [16, 256, 1024, 4096, 16384, 65536, 262144, 1 << 20, 4 << 20, 70 << 20]
    for i in range(40 if quick else 1500):
        signal = rng.choice(["traces", "logs", "metrics"])
        st = otap.rand_stream(rng, "limit/%s/%d" % (signal, i), signal, [], nb=rng.choice([2, 3, 5]),
                              size=rng.choice(["small", "medium", "large"]))
        st["limits"] = ladder
        st["nowire"] = True
        plan.append(st)
    # an established stream, one batch that brings many new dictionary values at once (refused by the middle limits while a
    # dictionary message is being read), then small batches that fit again: a consumer that has refused must go on refusing
    # recognisably (its reader is in a sticky error state), never resume with a dictionary it has lost
    for signal in ("traces", "logs", "metrics"):
        for col in (RAMP_COLS[signal][:2] if quick else RAMP_COLS[signal]):
            for burst in ([3000] if quick else [600, 3000, 20000]):
                bs = [ramp(signal, 200, 3, 0, col, nodump=False), ramp(signal, 100, 5, 0, col, nodump=False),
                      ramp(signal, burst, burst, 1000, col), ramp(signal, 50, 5, 0, col, nodump=False),
                      ramp(signal, 60, 8, 1000, col, nodump=False), ramp(signal, 30, 3, 0, col, nodump=False)]
                plan.append({"id": "limit-burst/%s/%s/%d" % (signal, col, burst), "signal": signal, "opts": {}, "batches": bs,
                             "props": [], "mode": 0, "nowire": True, "limits": ladder})
    # dictionary-heavy streams: retained dictionaries count against the limit
    for i in range(12 if quick else 300):
        signal = rng.choice(["traces", "logs", "metrics"])
        bs = ramp_history(rng, signal, rng.choice(["overflow", "cross"]), rng.choice([255, 2000]), rng.choice([4, 6]))
        for b in bs:
            b["nodump"] = True
        plan.append({"id": "limit-dict/%s/%d" % (signal, i), "signal": signal, "opts": {}, "batches": bs, "props": [],
                     "mode": 0, "nowire": True, "limits": ladder})
    return plan

def plan_c16(pid, rng, quick):
    plan = []
    for i in range(96 if quick else 4000):
        signal = rng.choice(["traces", "logs", "metrics"])
        st = otap.rand_stream(rng, "conc/%s/%d" % (signal, i), signal, [], nb=rng.choice([2, 3, 5]),
                              opts=otap.opts_random(rng) if rng.random() < 0.6 else None,
                              size=rng.choice(["small", "medium"]))
        if rng.random() < 0.2:
            for b in st["batches"]:
                b["signal"] = rng.choice(["traces", "logs", "metrics"])
        st["nowire"] = True
        # options whose state a careless refactoring would share between producers: statistics, uniform shapes
        if i % 3 == 0:
            st["opts"] = dict(st["opts"] or {}, stats=rng.choice(["ratio", "ratio,producer"]))
        if i % 4 == 0:
            st["batches"] = [uniform_batch(rng, 1 + i % 3) for _ in st["batches"]]
        plan.append(st)
    for i in range(8 if quick else 64):   # dictionary state machines running side by side
        signal = rng.choice(["traces", "logs", "metrics"])
        bs = ramp_history(rng, signal, rng.choice(["overflow", "reset", "cross"]), 255, 4)
        plan.append({"id": "conc-dict/%s/%d" % (signal, i), "signal": signal, "opts": {"dict": "8"}, "batches": bs,
                     "props": [], "mode": 0, "nowire": True})
    rng.shuffle(plan)
    return plan

PLANS = {"C01": plan_roundtrip, "C02": plan_roundtrip, "C03": plan_roundtrip, "C08": plan_c08, "C15": plan_c15,
         "C12": plan_wire, "C13": plan_wire, "C04": plan_c04, "C07": plan_c07, "C14": plan_c14, "C16": plan_c16}

def fixed_plans(pid):
    out = []
    d = os.path.join(C.VERIF, "replays", pid)
    if os.path.isdir(d):
        for f in sorted(os.listdir(d)):
            if f.startswith("finding-") and f.endswith(".json"):
                obj = json.load(open(os.path.join(d, f)))
                sts = obj if isinstance(obj, list) else [obj.get("stream", obj)]
                for k, st in enumerate(sts):
                    if isinstance(st, dict) and "batches" in st:
                        out.append(dict(st, id="fixed/%s%s" % (f, "#%d" % k if k else "")))
    return out

def describe(evs, seq):
    """Short human description of the failing event (for the VIOLATION line and signatures)."""
    for e in evs:
        if e["seq"] == seq:
            return "%s k=%d oc=%s %s %s" % (e["ev"], e["k"], e["oc"], e["err"][:120], ",".join(map(str, e["l"]))[:80])
    return ""

def run(pid, tier_, replay=None):
    if pid not in PLANS:
        print("no check registered for", pid)
        return 2
    seed = C.seed()
    quick = tier_ == "quick"
    rng = random.Random(seed * 104729 + int(pid[1:]))
    if replay:
        obj = json.load(open(replay))
        if isinstance(obj, dict) and "allocator_case" in obj:
            print("replay of an allocator sequence: re-run `bin/check C14` (the sequences are regenerated by TLC from Allocator.tla); case: %s"
                  % json.dumps(obj["allocator_case"])[:300])
            return 2
        plan = [obj["stream"]] if "stream" in obj else (obj if isinstance(obj, list) else [obj])
        viol, outs, nev, _ = otap.execute(plan, shards=1)
        mine = [v for v in viol if v[1] == pid]
        for v in mine:
            print("VIOLATION property=%s replay=%s" % (pid, replay))
            print("  what: %s %s" % (v[2], describe(otap.stream_events(outs, v[0]), v[3])))
        if not mine:
            print("replay: no violation of %s reproduced (%d events judged)" % (pid, nev))
        return 1 if mine else 0

    plan = fixed_plans(pid) + PLANS[pid](pid, rng, quick)
    for st in plan:
        # more than 65,535 items in one batch may exceed the protocol's 16-bit parent ids: outside the domain of C01-C04
        if st.get("mode", 0) == 0 and any(b.get("n", 0) > 65535 for b in st["batches"]):
            st["mode"] = 2
    binp = otap.build(race=(pid == "C16"))
    if pid == "C16":
        viol, outs, nev, notes = otap.execute(plan, shards=4, timeout=1500 if quick else 7000, binp=binp,
                                              test="TestConcurrent", extra_env={"VERIF_GROUP": str(rng.choice([4, 6, 8]))})
    else:
        viol, outs, nev, notes = otap.execute(plan, shards=12, timeout=1500 if quick else 7000, binp=binp)
    alloc = otap.allocator_replay(binp, quick, seed) if pid == "C14" else None
    if alloc is not None:
        alloc["unbounded"] = otap.allocator_unbounded()
    dct = None
    if pid in ("C13", "C04", "C08"):
        # the dictionary state machine: Dictionary.tla exhaustively, and DictObs.tla on every dictionary column of every recorded stream
        dct = dict(zip(("states", "generated", "runs", "issues"), otap.dictionary_mc(quick)))
        dct["obs"] = otap.run_dictobs(outs, plan, timeout=1500 if quick else 7000)
        if pid in ("C13", "C08"):
            dct["unbounded"] = otap.dictionary_unbounded()
    strm = None
    if pid in ("C07", "C12"):
        # the payload-level protocol: Stream.tla exhaustively (with its specification mutants), and StreamTrace.tla on every recorded
        # Produce / Consume step (stream maps read through the verif-tagged projection)
        strm = otap.stream_mc(quick)
        strm["trace"] = otap.stream_conformance(outs, timeout=1500 if quick else 7000)
    wirev = None
    if pid in ("C01", "C02", "C03", "C04", "C12", "C08"):
        # the relational layer of the wire protocol (ids, parent ids, delta groups): OtapWire.tla on every small emitted batch,
        # read by an independent Arrow reader - binds the producer alone to the protocol (drift only)
        wirev = otap.run_otapwire(outs, timeout=1500 if quick else 7000)
    stats = otap.summarize(outs)
    found = []
    for tr, prop, clause, seq in viol:
        if prop != pid:
            continue
        st = plan[tr - 1]
        evs = otap.stream_events(outs, tr)
        desc = describe(evs, seq)
        if clause == "NotEquivalent":
            enc = [e for e in evs if e["ev"] == "Encode" and e["seq"] < seq][-1]
            dec = [e for e in evs if e["seq"] == seq][0]
            desc = "diff: " + rtdiff.classify(enc["in"], dec["out"])
        sig = "%s | %s | %s" % (clause, st["signal"], desc)
        light = []
        for e in evs:
            e2 = dict(e)
            if e["seq"] > seq:
                break
            light.append(e2)
        found.append(dict(signature=sig, what="%s: %s in stream %s (%s)" % (pid, clause, st["id"], desc),
                          replay=dict(property=pid, clause=clause, stream=st, event_seq=seq, events=light[-4:])))
    model_issues = []
    if alloc:
        for prop, clause, rec in alloc["violations"]:
            found.append(dict(signature="%s limit=%s" % (clause, rec["limit"]), what="C14: %s by the real LimitedAllocator (limit %s) on %s"
                              % (clause, rec["limit"], json.dumps(rec["ops"])), replay=dict(property="C14", clause=clause, allocator_case=rec)))
        if alloc["model_issue"]:
            model_issues.append(alloc["model_issue"])
        if not alloc["unbounded"]["ok"]:
            model_issues.append("AllocatorInd.tla: " + str(alloc["unbounded"]["problem"]))
    # coverage: distinct non-trivial streams = distinct (schema-evolution events, dictionary events, outcome) signatures
    sigs = set()
    agg = {}
    for tr, s in stats.items():
        if s["items"] == 0:
            continue
        sigs.add((tuple(sorted(s["obs"].items())), tuple(sorted(s["enc"].items())), tuple(sorted(s["dec"].items())),
                  len(s["sids"]), s["batches"], tuple(sorted(s["ladder"].items())), len(s["fields"]), tuple(s.get("conc", []))))
        for k, v in s["obs"].items():
            agg[k] = agg.get(k, 0) + v
    fields = set()
    for s in stats.values():
        fields |= s["fields"]
    samples = []
    for tr in sorted(stats)[:2]:
        st = plan[tr - 1]
        evs = otap.stream_events(outs, tr)
        samples.append({"stream": {k: st[k] for k in ("id", "signal", "opts")}, "batches": st["batches"][:3],
                        "events": [{k: (e[k] if k not in ("in", "out", "obs", "pl") else len(e[k]))
                                    for k in ("ev", "k", "oc", "n", "in", "out", "obs", "pl", "bid")} for e in evs[:8]]})
    cov = dict(evaluations=sum(s["batches"] for s in stats.values()), distinct_nontrivial=len(sigs),
               rule="stream histories (seeded adversarial generator over zero/empty/boundary/repeated/type-confusable values, "
                    "growing and shrinking richness so optional columns and dictionaries evolve, near-identical resources/scopes) "
                    "encoded and decoded by the real producer/consumer; every batch judged by OtapObs.tla/RoundTrip.tla (TLC); "
                    "distinct = different (schema/dictionary events, outcomes, schema ids, batches, optional fields) signature of a stream with items",
               samples=samples, traces_validated_against_impl=len(stats), events_judged=nev,
               items_round_tripped=sum(s["items"] for s in stats.values()),
               observer_events=agg, optional_fields_seen=len(fields), streams=len(stats), exhaustive=False)
    if dct:
        model_issues.extend(dct["issues"])
        cov.update(states=dct["states"], transitions=dct["generated"],
                   dictionary=dict(spec="Dictionary.tla / DictFn.tla / DictObs.tla", model_runs=dct["runs"], columns_followed=dct["obs"]["columns"],
                                   column_batches_validated=dct["obs"]["records"], conformance_drift=len(dct["obs"]["drift"]),
                                   drift_samples=dct["obs"]["drift"][:3]))
        if "unbounded" in dct:
            cov["dictionary"]["unbounded"] = dct["unbounded"]["steps"]
            cov["dictionary"]["spec"] += " / DictionaryInd.tla (Apalache, unbounded) / MC_DictionaryRef.tla"
            if not dct["unbounded"]["ok"]:
                model_issues.append("DictionaryInd.tla: " + str(dct["unbounded"]["problem"]))
        if pid == "C13":
            cov["traces_validated_against_impl"] = dct["obs"]["columns"] - len({d[1] for d in dct["obs"]["drift"]})
        for d in dct["obs"]["drift"][:4]:
            print("DRIFT (not a verdict): Dictionary.tla does not explain column %s of stream %s at batch %s: %s" % (d[1], plan[d[0] - 1]["id"], d[2], d[3]))
    if alloc:
        cov.update(states=alloc["states"], transitions=alloc["generated"],
                   allocator=dict(spec="Allocator.tla / AllocObs.tla / AllocatorInd.tla (Apalache, unbounded) / MC_AllocatorRef.tla", unbounded=alloc["unbounded"]["steps"],
                                  behaviours_replayed=alloc["behaviours"], real_runs=alloc["runs"],
                                  conformance_drift=len(alloc["drift"]), sample=alloc["sample"]))
        cov["traces_validated_against_impl"] = cov["traces_validated_against_impl"] + alloc["runs"] - len(alloc["drift"])
        if alloc["drift"]:
            print("DRIFT (not a verdict): the real LimitedAllocator differs from Allocator.tla on %d sequences, e.g. %s" % (len(alloc["drift"]), json.dumps(alloc["drift"][0])))
    if wirev is not None:
        cov["wire"] = dict(spec="OtapWire.tla", batches_decoded_by_the_specification=wirev["batches"], rows=wirev["rows"],
                           conformance_drift=len(wirev["drift"]), drift_samples=wirev["drift"][:3])
        for d_ in wirev["drift"][:4]:
            sid_ = plan[d_[0] - 1]["id"] if 0 < d_[0] <= len(plan) else "?"
            print("DRIFT (not a verdict): OtapWire.tla: %s of table %s in batch %s of stream %s" % (d_[2], d_[3], d_[1], sid_))
    if strm:
        if strm["problem"]:
            model_issues.append("Stream.tla: " + strm["problem"])
        tr_ = strm["trace"]
        cov.update(states=strm["distinct"], transitions=strm["generated"],
                   stream=dict(spec="Stream.tla / MC_Stream.tla / StreamTrace.tla", configs=strm["configs"], spec_mutants_first_violation=strm["mutants"],
                               streams_recorded=tr_["streams"], steps_recorded=tr_["events"], streams_accepted=tr_["accepted"],
                               conformance_drift=len(tr_["drift"]), drift_samples=tr_["drift"][:3]))
        cov["traces_validated_against_impl"] = tr_["accepted"]
        for d_ in tr_["drift"][:4]:
            print("DRIFT (not a verdict): Stream.tla does not explain step %s of stream %s: %s" % (
                d_["line"], d_["stream"], json.dumps(d_["event"])[:600]))
    for mi in model_issues:
        print("MODEL-ISSUE (not a verdict): %s" % mi)
    assumptions = ["the generic dump of harness/otap/dump.go lists every data-model field of docs/data_model.md",
                   "values come from finite alphabets and a seeded generator: a lossy encoding of a value class no generator produces is not found",
                   "RoundTrip.tla applies exactly the four documented normalisations to both sides"]
    clusters = {}
    for f in found:
        key = re.sub(r"\d+", "N", f["signature"])
        clusters[key] = clusters.get(key, 0) + 1
    for k, v in sorted(clusters.items(), key=lambda kv: -kv[1])[:12]:
        print("  cluster %4d x %s" % (v, k))
    rc = C.verdict(pid, found)
    import registry
    C.write_evidence(pid, tier_, registry.CHECKS[pid]["level"], cov, assumptions, len(found))
    print("%s: %d streams, %d batches, %d items round-tripped, %d events judged by TLC, %d distinct non-trivial; %d violations"
          % (pid, len(stats), cov["evaluations"], cov["items_round_tripped"], nev, len(sigs), len(found)))
    if model_issues and rc == 0:
        return 2
    return rc
