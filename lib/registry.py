"""Registered checks (MANIFEST.json is generated from this by bin/mkmanifest)."""
HOOK_COMMITS = ["40b967db"]
NOTES = ("One entry point: bin/check <id> [--tier quick|thorough] [--replay file]. Specifications in spec/, "
         "Go conformance harnesses in harness/, orchestration in lib/. Verdicts come only from traces recorded "
         "from the real code and judged by TLC against the black-box specifications; see DESIGN.md.")
ENGINES = [
    {"name": "bp", "path": "spec/bp + harness/bp + lib/bp*.py",
     "serves_properties": ["C05", "C06", "C09", "C10", "C11", "C18"],
     "kind_free_text": "TLA+ impl spec BatchProcessor.tla (TLC exhaustive + simulation), black-box monitor BPObs.tla run by TLC on traces recorded from the real processor under testing/synctest with hook-gated schedules"},
]
_BP_NOTE = ("Trusted: TLC, Go 1.26 testing/synctest (virtual clock, quiescence), the 39 add-only hook lines (build tag verif), "
            "the harness' stamping/digest of items. TLC explores the design only within small constants; the real code is "
            "observed on TLC-simulated behaviours, seeded scripts and regression scenarios, not on all schedules.")
def _bp(text, ref):
    return dict(engine="bp", level="model_checking", text=text, design_ref=ref, note=_BP_NOTE,
                technique="TLA+ spec + TLC exhaustive; TLC-generated behaviours replayed into the real code; recorded traces validated by TLC against BPObs.tla")
CHECKS = {
    "C05": _bp("BatchProcessor.tla is checked exhaustively (all interleavings of 2-3 callers, splits, failures, cancellation, Shutdown) for conservation / no-duplication / nothing-lost; "
               "hundreds of TLC-generated and seeded schedules are forced onto the real processor and every export is compared item by item (identity + content + container digests) by BPObs.tla.", "7 C05"),
    "C06": _bp("Every ok/fail assignment, arrival order and cancellation point is enumerated on the model (NilIsTrue, FailIsTrue, ReturnAfterAll, liveness); real executions with held exports, "
               "distinguishable per-export errors and scripted cancellations are judged by BPObs.tla (return kind vs. fate of the carriers of the caller's own items).", "7 C06"),
    "C09": _bp("Timed model (virtual clock advancing only at quiescence) checked exhaustively for SizeOK, FlushedAtRest and the DeadlineOK action property; the real processor runs in a synctest bubble where timer "
               "expiries are exact, so 'as soon as' and 'no later than' are judged exactly by BPObs.tla at every quiescent point and every tick.", "7 C09"),
    "C10": _bp("The check-then-create admission is modelled as in the code (lock-free miss, then one atomic locked section) and all races of first arrivals are enumerated; the real processor is driven with "
               "gate-ordered first arrivals, mixed-case keys, multi/absent/empty values; BPObs.tla judges tenant purity, export metadata, the admitted count and refusals.", "7 C10"),
    "C11": _bp("Deadlock freedom, the concurrency bound, drain-on-shutdown and liveness (FairSpec) are checked exhaustively on the model with Shutdown enabled in every state; real executions hold exports open to reach the bound, "
               "a bubble that cannot end is reported as a leak, and the harness binary is built with -race (the data-race clause is decided by the race detector, not by TLA+).", "7 C11"),
    "C18": _bp("All merge patterns of 2-3 contributors from 1-3 contexts with every cancellation subset are enumerated on the model (CtxRule, Isolation, NoCollateral); in the real processor tagged contexts, a recording tracer and a "
               "cancellation-honouring sink expose the export context, parent and links of every batch to BPObs.tla.", "7 C18"),
}
NOT_APPLICABLE = {}
