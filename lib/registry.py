"""Registered checks (MANIFEST.json is generated from this by bin/mkmanifest)."""
HOOK_COMMITS = ["40b967db", "65b4d8cb", "2ba5634d"]
NOTES = ("One entry point: bin/check <id> [--tier quick|thorough] [--replay file]. Specifications in spec/, "
         "Go conformance harnesses in harness/, orchestration in lib/. Verdicts come only from traces recorded "
         "from the real code and judged by TLC against the black-box specifications; see DESIGN.md.")
ENGINES = [
    {"name": "bp", "path": "spec/bp + harness/bp + lib/bp*.py",
     "serves_properties": ["C05", "C06", "C09", "C10", "C11", "C18"],
     "kind_free_text": "TLA+ impl spec BatchProcessor.tla (TLC exhaustive + simulation), black-box monitor BPObs.tla run by TLC on traces recorded from the real processor under testing/synctest with hook-gated schedules"},
]
_BP_NOTE = ("BPTelemetry.tla additionally binds the processor's own instruments (size / timeout trigger counts, batch_send_size, metadata_cardinality, read once per scenario) to the recorded steps (drift only). Trusted: TLC, Go 1.26 testing/synctest (virtual clock, quiescence), the 39 add-only hook lines (build tag verif), "
            "the harness' stamping/digest of items. TLC explores the design only within small constants; the real code is "
            "observed on TLC-simulated behaviours, seeded scripts and regression scenarios, not on all schedules.")
def _bp(text, ref):
    return dict(engine="bp", level="model_checking", text=text, design_ref=ref, note=_BP_NOTE,
                technique="TLA+ spec + TLC exhaustive; TLC-generated behaviours replayed into the real code; recorded traces validated by TLC against BPObs.tla")
CHECKS = {
    "C05": _bp("BatchProcessor.tla is checked exhaustively (all interleavings of 2-3 callers, splits, failures, cancellation, Shutdown) for conservation / no-duplication / nothing-lost; "
               "hundreds of TLC-generated and seeded schedules are forced onto the real processor and every export is compared item by item (identity + content + container digests) by BPObs.tla.", "7 C05"),
    "C06": _bp("Every ok/fail assignment, arrival order and cancellation point is enumerated on the model (NilIsTrue, FailIsTrue, ReturnAfterAll, liveness); real executions with held exports, "
               "distinguishable per-export errors and scripted cancellations are judged by BPObs.tla (return kind vs. fate of the carriers of the caller's own items).", "7 C06"),
    "C09": _bp("Timed model (virtual clock advancing only at quiescence) checked exhaustively for SizeOK, FlushedAtRest and the DeadlineOK action property; the real processor runs in a synctest bubble where timer "
               "expiries are exact, so 'as soon as' and 'no later than' are judged exactly by BPObs.tla at every quiescent point and every tick.", "7 C09"),
    "C10": _bp("The check-then-create admission is modelled as in the code (lock-free miss, then one atomic locked section) and all races of first arrivals are enumerated; the real processor is driven with "
               "gate-ordered first arrivals, mixed-case keys, multi/absent/empty values; BPObs.tla judges tenant purity, export metadata, the admitted count and refusals.", "7 C10"),
    "C11": _bp("Deadlock freedom, the concurrency bound, drain-on-shutdown and liveness (FairSpec) are checked exhaustively on the model with Shutdown enabled in every state; real executions hold exports open to reach the bound, "
               "a bubble that cannot end is reported as a leak, and the harness binary is built with -race (the data-race clause is decided by the race detector, not by TLA+).", "7 C11"),
    "C18": _bp("All merge patterns of 2-3 contributors from 1-3 contexts with every cancellation subset are enumerated on the model (CtxRule, Isolation, NoCollateral); in the real processor tagged contexts, a recording tracer and a "
               "cancellation-honouring sink expose the export context, parent and links of every batch to BPObs.tla.", "7 C18"),
}
_OTAP_NOTE = ("Trusted: TLC, arrow-go's own IPC reader (independent wire observer), pdata, the harness' generic dump (every data-model field, no "
              "normalisation in Go). Values come from finite alphabets and a seeded generator; stream histories are sampled, not enumerated.")
def _otap(level, text, ref, technique="recorded producer/consumer histories validated by TLC against the black-box TLA+ specification OtapObs.tla (RoundTrip.tla oracle)"):
    return dict(engine="otap", level=level, text=text, design_ref=ref, note=_OTAP_NOTE, technique=technique)
CHECKS.update({
    "C01": _otap("exploration", "Seeded adversarial stream histories of trace batches (optional columns appearing and disappearing, dictionaries reused, near-identical resources/scopes, boundary values, refused batches in the middle) "
                 "are encoded and decoded by the real producer/consumer; TLC evaluates the RoundTrip.tla bag-with-ownership oracle with exactly the documented normalisations on every batch.", "7 C01-C03"),
    "C02": _otap("exploration", "Same as C01 for logs: bodies of every AnyValue kind, the same scope under different resources, near-identical resources; RoundTrip.tla evaluated by TLC on every batch of every history.", "7 C01-C03"),
    "C03": _otap("exploration", "Same as C01 for metrics: all five types and typeless metrics, zero counts, all-zero bucket lists, zero offsets, present-but-zero sum/min/max, exemplars with and without attributes; "
                 "data points and exemplars compared as bags, bucket lists and quantiles as sequences, by TLC.", "7 C01-C03"),
    "C04": _otap("exploration", "A sample (quick) or the full product (thorough) of the public producer options x schema-evolution histories, plus cardinality ramps crossing 255 / 65,535 / the configured limit in the overflow and reset regimes, "
                 "all decoded by a default consumer and judged by the RoundTrip.tla oracle; the corners of the ordering-option lattice are always part of the sample; OtapWire.tla decodes the id / parent-id columns of every small emitted batch under every ordering option (drift).", "7 C04"),
    "C07": _otap("model_checking", "The payload-level fault alphabet (relabel, drop, duplicate, swap, empty, unknown / retired schema id) is enumerated over positions x valid prefixes (0-3 batches) x optional follow-up batches for all three signals and applied to real batches; "
                 "OtapObs.tla judges no-panic, no success-while-discarding-the-main-record, and complete decoding of well-formed batches on healthy streams. "
                 "Stream.tla (stream producers / faults in flight / Consume loop with the IPC reader state machine / RelatedDataFrom dispatch) is model checked exhaustively for NoPanic, NoSilentLoss, HealthyOK, Sync and the soundness of the domain rule, "
                 "its five specification mutants must each violate an invariant, behaviours simulated by TLC from StreamSim.tla (three signals, growing schema levels, up to four faults over five batches) are concretised into streams for the real producer/consumer, and StreamTrace.tla validates every recorded Produce / Consume step of every stream (outcome and both stream maps, read through the verif-tagged projection) against it.", "7 C07",
                 technique="impl TLA+ spec Stream.tla model checked by TLC + white-box trace validation (StreamTrace.tla) of recorded producer/consumer steps; verdicts by the black-box monitor OtapObs.tla run by TLC on the same recordings"),
    "C08": _otap("exploration", "Unguarded seeded inputs (invalid UTF-8, huge timestamps, deep nesting), sparse first batches (columns introduced with only zeros), 65,535/65,536/65,537-parent batches for every id-bearing table as first and later batches, and dictionary regimes under every option; "
                 "every encode outcome (ok / error / panic) is an event judged by OtapObs.tla. Dictionary.tla is model checked for NoPanic / RetryBound and DictionaryInd.tla proves the termination of the schema-update retry loop for all capacities and histories (Apalache, inductive invariant).", "7 C08"),
    "C12": _otap("model_checking", "Every payload of every emitted batch is walked with arrow-go's MessageReader and each sub-stream re-decoded from scratch by an independent ipc.Reader; OtapObs.tla (Framing clauses) checks batch ids, main-first, one payload per type, non-empty related payloads, "
                 "schema-id stability / no reuse after retirement, IPC continuation shape and independent decodability, on interleaved signals, schema changes, dictionary resets, zstd on/off. "
                 "Stream.tla is model checked for IdDenotesOne, NoReuse, SchemaFirst, MainFirst, OncePerType, LiveBound (and its mutants), and StreamTrace.tla validates every recorded Produce step (payload ids, schema-first flags, batch id, the streamProducers map) against it.", "7 C12",
                 technique="impl TLA+ spec Stream.tla model checked by TLC + white-box trace validation (StreamTrace.tla); verdicts by the black-box monitor OtapObs.tla (Framing clauses) run by TLC on the wire walked by an independent Arrow reader"),
    "C13": _otap("model_checking", "Dictionary.tla (index level, memo size, cumulative totals, resetPending, shared-builder rebuild, RevertCounters; scaled capacities) is model checked exhaustively for DictBound / NoPanic / RetryBound / Widening; "
                 "DictionaryInd.tla (the same machine over unbounded integers with symbolic capacities C1 < C2 < C3, two columns sharing one builder, the threshold test abstracted to a free choice) is proved by Apalache: an inductive invariant with an explicit ranking function gives DictBound and termination of the retry loop (retries <= 3) for all capacities, batch sizes and history lengths, the step is refuted for the pre-fix reset guard, and TLC checks that Dictionary.tla refines it; "
                 "DictObs.tla validates every dictionary column of every recorded stream against it (observer events with the cardinalities and totals the code itself reports, schema-update groups, and the dictionary an independent reader holds), with the true capacities. "
                 "Unbounded-cardinality columns are fed for many batches under every dictionary limit option and reset threshold (overflow, reset and slow-crossing regimes); the sizes of the dictionaries an independent Arrow reader holds after each payload "
                 "are compared by OtapObs.tla with the configured limit and with what the index type can address.", "7 C13"),
    "C14": _otap("model_checking", "Allocator.tla (in-use counter vs. limit, two allocators with Limit1 <= Limit2 on the same requests) is model checked exhaustively for WithinLimit, Accounting, Monotone; AllocatorInd.tla (the same counter logic over unbounded integers, blocks abstracted to their total) is proved by Apalache (inductive invariant, all limits / sizes / history lengths) and TLC checks that Allocator.tla refines it; TLC-simulated operation sequences are replayed into the real LimitedAllocator and judged step by step by AllocObs.tla. "
                 "The same recorded stream is fed to consumers with a ladder of limits from 16 B to 70 MiB (a consumer is retired at its first refusal); OtapObs.tla checks no panic, every refusal recognisable as the memory-limit error, reported in-use <= limit (recording MeterProvider), "
                 "monotonicity in the limit, and equality (RoundTrip oracle) of everything decoded under different limits.", "7 C14"),
    "C15": _otap("exploration", "Every producer runs on a CheckedAllocator; histories with schema updates, dictionary overflow / reset / rebuild, mixed signals, re-sent inputs and encode errors in the middle; OtapObs.tla requires balance 0 after Close and byte-identical input before/after every encode.", "7 C15"),
})
ENGINES.append({"name": "otap", "path": "spec/otap + harness/otap + lib/otap*.py",
                "serves_properties": ["C01", "C02", "C03", "C04", "C07", "C08", "C12", "C13", "C14", "C15"],
                "kind_free_text": "black-box TLA+ monitor OtapObs.tla + RoundTrip.tla oracle run by TLC over histories recorded from the real producer/consumer; independent arrow-go reader on the wire"})
ENGINES.append({"name": "obf", "path": "spec/obf + harness/obf + lib/obf_check.py", "serves_properties": ["C17"],
                "kind_free_text": "Obfuscation.tla enumerated exhaustively by TLC (abstract trees x modes), every case concretised at every attribute site of all three signals and run through the real processor; ObfObs.tla monitor run by TLC"})
CHECKS["C17"] = dict(engine="obf", level="exploration", design_ref="7 C17",
    text="TLC enumerates all trees of the abstract attribute grammar (depth <= 2, both modes) on Obfuscation.tla with its invariants and mutant switches; each case is placed at every attribute site of traces, logs and metrics and run through the real processor, "
         "several calls per instance; ObfObs.tla judges shape, unchanged numbers/booleans/untargeted values, length preservation, and functional / injective substitution across the whole life of an instance.",
    note="Trusted: TLC, pdata, the harness' dump. Injectivity of the Feistel cipher is only judged on the strings that occur; keys and name-like strings are accepted unchanged or consistently substituted (the statement does not pin them down).",
    technique="TLA+ spec enumerated by TLC (one implementation test per abstract case) + recorded calls validated by TLC against ObfObs.tla")
CHECKS["C16"] = _otap("exploration", "Groups of 4-8 producer/consumer pairs with different options run their (seeded) histories alone and then all at once from different goroutines in a -race build; every batch decoded concurrently is compared by the RoundTrip.tla oracle (TLC) with what the same stream decoded alone, "
                      "the exported package-level schemas and index tables are fingerprinted before and after, and a race-detector report is an event of the trace. The interleaving itself is not controlled (no hooks in pkg/).", "7 C16",
                      technique="concurrent vs. alone histories validated by TLC against OtapObs.tla; data-race clause decided by the Go race detector")
ENGINES[1]["serves_properties"].append("C16")
NOT_APPLICABLE = {}
