//go:build verif

package bp

import (
	"bufio"
	"bytes"
	"context"
	"crypto/sha256"
	"encoding/json"
	"errors"
	"fmt"
	"math/rand"
	"os"
	"runtime"
	"sort"
	"strconv"
	"strings"
	"sync"
	"testing"
	"testing/synctest"
	"time"

	cbp "github.com/open-telemetry/otel-arrow/collector/processor/concurrentbatchprocessor"
	"go.opentelemetry.io/collector/client"
	"go.opentelemetry.io/collector/component"
	"go.opentelemetry.io/collector/component/componenttest"
	"go.opentelemetry.io/collector/consumer"
	"go.opentelemetry.io/collector/consumer/consumererror"
	"go.opentelemetry.io/collector/pdata/plog"
	"go.opentelemetry.io/collector/pdata/pmetric"
	"go.opentelemetry.io/collector/pdata/ptrace"
	"go.opentelemetry.io/collector/processor/processortest"
	sdkmetric "go.opentelemetry.io/otel/sdk/metric"
	"go.opentelemetry.io/otel/sdk/metric/metricdata"
	sdktrace "go.opentelemetry.io/otel/sdk/trace"
	"go.opentelemetry.io/otel/sdk/trace/tracetest"
	"go.opentelemetry.io/otel/trace"
)

const tickDur = 100 * time.Millisecond

// ---------------------------------------------------------------- scenario

type CallerSpec struct {
	N     int                 `json:"n"`
	Ctx   string              `json:"ctx"`
	MD    map[string][]string `json:"md"` // client metadata of the request context
	Shape Shape               `json:"shape"`
}

type Scenario struct {
	ID      string                `json:"id"`
	Signal  string                `json:"signal"`
	S       int                   `json:"S"`
	M       int                   `json:"M"`
	T       int                   `json:"T"` // ticks
	K       int                   `json:"K"`
	L       int                   `json:"L"`
	Early   bool                  `json:"early"`
	Keys    []string              `json:"keys"`
	Callers map[string]CallerSpec `json:"callers"`
	Steps   [][]any               `json:"steps"`
	Gated   bool                  `json:"gated"`
	Hold    bool                  `json:"hold"`       // the sink holds every export until released
	Honour  bool                  `json:"honour"`     // the sink fails an export whose context is done
	Results []string              `json:"results"`    // default results for exports released by the drain ("ok"/"fail"), cycled
	Seed    int64                 `json:"seed"`       // gate-release order of the drain
	NoVal   bool                  `json:"novalidate"` // build the config without Validate()
	Expect  map[string]any        `json:"expect,omitempty"`
	// Spans: per context name, what span the request context carries.  Default: a live (recording) span of its own.
	Spans map[string]SpanSpec `json:"spans,omitempty"`
	// Deadlines: per context name, a deadline in ticks of virtual time after the start of the scenario.
	Deadlines map[string]int `json:"deadlines,omitempty"`
	// ShutCtx: the context Shutdown is called with: "" (background), "cancelled", "deadline" (one tick)
	ShutCtx string `json:"shutctx,omitempty"`
}

// SpanSpec: kind "live" | "remote" (valid remote parent set by a propagator, not recording) | "unsampled" (valid, not
// sampled, not recording); share: the name of another context (smaller in sort order) whose span this context also
// carries - two requests of one traced stream with their own cancellation.
type SpanSpec struct {
	Kind  string `json:"kind"`
	Share string `json:"share"`
}

// ---------------------------------------------------------------- runner

type tagKey struct{}

type gate struct {
	ev string
	ch chan struct{}
}

type heldExport struct {
	ch chan string
}

// sinkErr is the failure of export k in the next consumer.  under, when set, is what a downstream component's own
// timeout or cancellation looks like: an error that wraps context.DeadlineExceeded / context.Canceled although the
// context the export was called with is alive.
type sinkErr struct {
	k     int
	under error
}

func (e sinkErr) Error() string {
	if e.under != nil {
		return fmt.Sprintf("sinkfail-%d: %v", e.k, e.under)
	}
	return fmt.Sprintf("sinkfail-%d", e.k)
}
func (e sinkErr) Unwrap() error { return e.under }

type runner struct {
	sc  *Scenario
	tr  int
	out *bufio.Writer

	mu        sync.Mutex
	seq       int
	t0        time.Time
	parked    map[string]*gate
	order     []string // park order
	emitted   map[string]int
	stepped   map[string]int
	gidProc   map[uint64]string
	tokCaller map[any]string
	shardName map[any]string
	shardWait map[any]chan struct{}
	nShards   int
	expIdx    map[string]int // "<shard>/<id>" -> k
	nExp      int
	gidExport map[uint64]int
	nSynth    int
	held      map[int]*heldExport
	heldOrder []int
	spanCtx   map[trace.SpanID]string // request span -> ctx name
	expSpan   map[trace.SpanID]int
	returned  map[string]bool
	started   map[string]bool
	shutRet   bool
	shutCall  bool
	keys      []string
	freeRun   bool
	ticking   bool // virtual time is passing: nothing may park
	// admission race: callers that missed the shard lookup wait for each other right after the
	// miss (outside the lock) and go for the lock together
	raceBarrier  chan struct{}
	raceExpected int
	raceArrived  int
	rng          *rand.Rand
	nres         int
}

var gatedEvents = map[string]bool{
	"AdmitMiss": true, "EnqueueTry": true, "EnqueueSend": true, "RespRecv": true,
	"LoopStart": true, "ProcessItem": true, "SendItems": true, "SemAcquired": true, "FlushDone": true,
	"TimerFire": true, "Rearm0": true, "ShutdownSeen": true,
	"ExportDone": true, "RespDelivered": true, "RespSkipped": true,
}

func curGID() uint64 {
	var buf [64]byte
	n := runtime.Stack(buf[:], false)
	// "goroutine 123 [running]:"
	f := bytes.Fields(buf[:n])
	id, _ := strconv.ParseUint(string(f[1]), 10, 64)
	return id
}

func (r *runner) now() int { return int(time.Since(r.t0) / time.Millisecond) }

// emit writes one event; r.mu must be held.
func (r *runner) emit(ev string, f map[string]any) {
	r.seq++
	rec := map[string]any{
		"tr": r.tr, "seq": r.seq, "t": r.now(), "ev": ev,
		"c": "", "s": "", "e": 0, "x": "", "k": "",
		"a": 0, "b": 0, "d": 0, "g": 0, "h": 0,
		"items": []any{}, "l": []any{},
	}
	for k, v := range f {
		rec[k] = v
	}
	b, _ := json.Marshal(rec)
	r.out.Write(b)
	r.out.WriteByte('\n')
	r.out.Flush()
}

func (r *runner) log(ev string, f map[string]any) {
	r.mu.Lock()
	r.emit(ev, f)
	r.mu.Unlock()
}

func ctxName(ctx context.Context) string {
	if ctx == nil {
		return ""
	}
	if v, ok := ctx.Value(tagKey{}).(string); ok {
		return v
	}
	return "own"
}

// comboString is the harness's own rendering of a metadata combination
// (independent of the processor's attribute.Set).
func comboString(keys []string, get func(string) []string) string {
	var parts []string
	for _, k := range keys {
		vs := get(k)
		if vs == nil {
			parts = append(parts, k+"=<unset>")
		} else {
			lv := make([]string, len(vs))
			for i, v := range vs {
				lv[i] = fmt.Sprintf("%d:%s", len(v), v) // length-prefixed: injective whatever the values contain
			}
			parts = append(parts, fmt.Sprintf("%s=[%d]%s", k, len(vs), strings.Join(lv, "|")))
		}
	}
	return strings.Join(parts, ";")
}

// mdGet looks a key up case-insensitively, like client.Metadata does.
func mdGet(md map[string][]string, k string) []string {
	for key, vs := range md {
		if strings.EqualFold(key, k) {
			if len(vs) == 0 {
				return nil
			}
			return vs
		}
	}
	return nil
}

func (r *runner) hook(ev string, ctx context.Context, owner, tok any, n ...int) {
	arg := func(i int) int {
		if i < len(n) {
			return n[i]
		}
		return 0
	}
	gid := curGID()
	f := map[string]any{"a": arg(0), "b": arg(1), "d": arg(2), "g": arg(3), "h": arg(4)}
	if ctx != nil {
		f["x"] = ctxName(ctx)
	}
	var proc string
	r.mu.Lock()
	switch ev {
	case "New":
		r.mu.Unlock()
		return
	case "AdmitMiss", "AdmitReject", "AdmitNew", "AdmitLost", "EnqueueTry", "RespChan", "EnqueueSend",
		"EnqueueCtxDone", "RespRecv", "WaitCtxDone":
		proc = r.gidProc[gid]
		f["c"] = proc
		if ev == "EnqueueTry" {
			r.tokCaller[tok] = proc
		}
		if ev == "RespChan" {
			if !isNilChan(tok) {
				r.tokCaller[tok] = proc
			}
		}
		if ev == "AdmitNew" {
			name := comboString(r.keys, func(k string) []string { return mdGet(r.sc.Callers[proc].MD, k) })
			r.shardName[owner] = name
			if w, ok := r.shardWait[owner]; ok {
				close(w)
				delete(r.shardWait, owner)
			}
			f["s"] = name
		} else if ev != "AdmitMiss" && ev != "AdmitReject" {
			f["s"] = r.shardName[owner]
		}
	case "LoopStart", "ProcessItem", "FlushDone", "Rearm", "SendItems", "Contributor", "SemAcquired",
		"TimerFire", "ShutdownSeen", "LoopExit":
		name, ok := r.shardName[owner]
		if !ok {
			if len(r.keys) == 0 {
				name = "one"
				r.shardName[owner] = name
			} else {
				// the loop goroutine overtook the AdmitNew event of its creator
				w, ok2 := r.shardWait[owner]
				if !ok2 {
					w = make(chan struct{})
					r.shardWait[owner] = w
				}
				r.mu.Unlock()
				<-w
				r.mu.Lock()
				name = r.shardName[owner]
			}
		}
		proc = "s:" + name
		f["s"] = name
		switch ev {
		case "ProcessItem":
			f["c"] = r.tokCaller[tok]
		case "SendItems":
			r.nExp++
			r.expIdx[fmt.Sprintf("%s/%d", name, arg(0))] = r.nExp
			f["e"] = r.nExp
			f["k"] = map[int]string{0: "timeout", 1: "size"}[arg(3)]
		case "Contributor":
			f["e"] = r.expIdx[fmt.Sprintf("%s/%d", name, arg(0))]
			if !isNilChan(tok) {
				f["c"] = r.tokCaller[tok]
			}
		case "SemAcquired":
			f["e"] = r.expIdx[fmt.Sprintf("%s/%d", name, arg(0))]
		case "Rearm":
			if arg(0) == 0 {
				ev = "Rearm0"
			} else {
				ev = "Rearm1"
			}
		}
	case "ExportStart", "ExportDone", "RespDelivered", "RespSkipped", "ExportExit":
		name := r.shardName[owner]
		k := r.expIdx[fmt.Sprintf("%s/%d", name, arg(0))]
		proc = "e" + strconv.Itoa(k)
		f["s"] = name
		f["e"] = k
		if ev == "ExportStart" {
			r.gidExport[gid] = k
		}
		if ev == "RespDelivered" || ev == "RespSkipped" {
			if !isNilChan(tok) {
				f["c"] = r.tokCaller[tok]
			}
		}
	default:
		proc = "?"
	}
	r.emit(ev, f)
	if ev == "AdmitMiss" && r.raceBarrier != nil {
		bar := r.raceBarrier
		r.raceArrived++
		if r.raceArrived >= r.raceExpected {
			r.raceBarrier = nil
			r.mu.Unlock()
			close(bar)
		} else {
			r.mu.Unlock()
			<-bar
		}
		return
	}
	if !r.sc.Gated || r.freeRun || r.ticking || !gatedEvents[ev] {
		r.mu.Unlock()
		return
	}
	r.emitted[proc]++
	if r.stepped[proc] > r.emitted[proc] {
		r.mu.Unlock()
		return
	}
	g := &gate{ev: ev, ch: make(chan struct{})}
	r.parked[proc] = g
	r.order = append(r.order, proc)
	r.mu.Unlock()
	<-g.ch
}

func isNilChan(tok any) bool {
	if tok == nil {
		return true
	}
	return fmt.Sprintf("%p", tok) == "0x0"
}

// step asks process p to perform one more segment.
func (r *runner) step(p string) string {
	r.mu.Lock()
	r.stepped[p]++
	g := r.parked[p]
	if g == nil || r.stepped[p] <= r.emitted[p] {
		r.mu.Unlock()
		return "noop"
	}
	r.unparkLocked(p)
	r.mu.Unlock()
	close(g.ch)
	synctest.Wait()
	return "released"
}

func (r *runner) unparkLocked(p string) {
	delete(r.parked, p)
	for i, q := range r.order {
		if q == p {
			r.order = append(r.order[:i], r.order[i+1:]...)
			break
		}
	}
}

// force releases p's gate regardless of the script accounting.
func (r *runner) force(p string) {
	r.mu.Lock()
	g := r.parked[p]
	if g == nil {
		r.mu.Unlock()
		return
	}
	r.stepped[p] = r.emitted[p] + 1
	r.unparkLocked(p)
	r.mu.Unlock()
	close(g.ch)
	synctest.Wait()
}

func (r *runner) parkedList() []string {
	r.mu.Lock()
	defer r.mu.Unlock()
	return append([]string(nil), r.order...)
}

// releaseAll lets every parked goroutine run until each blocks by itself
// (needed before virtual time may pass).
func (r *runner) releaseAll() {
	for i := 0; i < 100000; i++ {
		synctest.Wait()
		ps := r.parkedList()
		if len(ps) == 0 {
			return
		}
		r.force(r.pick(ps))
	}
}

func (r *runner) pick(ps []string) string {
	if r.rng == nil {
		return ps[0]
	}
	return ps[r.rng.Intn(len(ps))]
}

func (r *runner) endExport(k int, res string) bool {
	r.mu.Lock()
	h := r.held[k]
	if h == nil {
		r.mu.Unlock()
		return false
	}
	delete(r.held, k)
	for i, q := range r.heldOrder {
		if q == k {
			r.heldOrder = append(r.heldOrder[:i], r.heldOrder[i+1:]...)
			break
		}
	}
	p := "e" + strconv.Itoa(k)
	r.stepped[p]++
	r.mu.Unlock()
	h.ch <- res
	synctest.Wait()
	return true
}

var resMu sync.Mutex // export goroutines draw their results concurrently

func (r *runner) nextResult() string {
	resMu.Lock()
	defer resMu.Unlock()
	if len(r.sc.Results) == 0 {
		return "ok"
	}
	s := r.sc.Results[r.nres%len(r.sc.Results)]
	r.nres++
	return s
}

// ---------------------------------------------------------------- sink

type sink struct{ r *runner }

func (k *sink) Capabilities() consumer.Capabilities { return consumer.Capabilities{} }
func (k *sink) ConsumeTraces(ctx context.Context, d ptrace.Traces) error {
	return k.consume(ctx, d)
}
func (k *sink) ConsumeLogs(ctx context.Context, d plog.Logs) error          { return k.consume(ctx, d) }
func (k *sink) ConsumeMetrics(ctx context.Context, d pmetric.Metrics) error { return k.consume(ctx, d) }

func (k *sink) consume(ctx context.Context, data any) error {
	r := k.r
	its := itemsOf(data)
	items := make([]any, 0, len(its))
	for _, it := range its {
		items = append(items, []any{ownerOf(it.ID), it.ID, it.Dig})
	}
	info := client.FromContext(ctx)
	meta := comboString(r.keys, func(key string) []string { return info.Metadata.Get(key) })
	span := trace.SpanFromContext(ctx)
	parent := ""
	var links []any
	observable := 0 // the export span is recording: its parent and links can be read
	if ro, ok := span.(sdktrace.ReadOnlySpan); ok {
		observable = 1
		r.mu.Lock()
		if ro.Parent().IsValid() {
			parent = r.spanCtx[ro.Parent().SpanID()]
			if parent == "" {
				parent = "unknown"
			}
		}
		for _, l := range ro.Links() {
			links = append(links, r.spanCtx[l.SpanContext.SpanID()])
		}
		r.mu.Unlock()
	}
	if links == nil {
		links = []any{}
	}
	gid := curGID()
	r.mu.Lock()
	e := r.gidExport[gid]
	if e == 0 {
		// the next consumer is called from a goroutine that never passed the ExportStart hook (not the export goroutine
		// of sendItems): the call still is an export of its own - give it an identity so that it can be held, released
		// and judged like any other
		r.nSynth++
		e = 1000 + r.nSynth
	}
	if span.SpanContext().IsValid() {
		r.expSpan[span.SpanContext().SpanID()] = e
	}
	var h *heldExport
	if r.sc.Hold && !r.freeRun {
		h = &heldExport{ch: make(chan string)}
		r.held[e] = h
		r.heldOrder = append(r.heldOrder, e)
	}
	r.emit("ExportBegin", map[string]any{
		"e": e, "x": ctxName(ctx), "a": countOf(data), "b": b2i(ctx.Err() != nil),
		"k": meta, "items": items, "l": links, "c": parent, "d": observable,
	})
	r.mu.Unlock()
	res := ""
	if h != nil {
		res = <-h.ch
	} else {
		res = r.nextResult()
	}
	var err error
	if r.sc.Honour && ctx.Err() != nil {
		err = ctx.Err()
		res = "ctxerr"
	} else if res == "fail" {
		err = sinkErr{k: e}
	} else if res == "faildl" {
		err, res = sinkErr{k: e, under: context.DeadlineExceeded}, "fail"
	} else if res == "failcx" {
		err, res = sinkErr{k: e, under: context.Canceled}, "fail"
	} else if res == "failperm" {
		// a failure the next consumer marks as permanent (consumererror.NewPermanent): still this export's own failure
		err, res = consumererror.NewPermanent(sinkErr{k: e}), "fail"
	}
	r.log("ExportEnd", map[string]any{"e": e, "k": res, "x": ctxName(ctx)})
	return err
}

func ownerOf(id string) string {
	if i := strings.LastIndex(id, "."); i > 0 {
		return id[:i]
	}
	return "?"
}

func b2i(b bool) int {
	if b {
		return 1
	}
	return 0
}

// ---------------------------------------------------------------- classification of a Consume result

func classify(err error) (kind string, wraps []any, permanent bool) {
	wraps = []any{}
	if err == nil {
		return "nil", wraps, false
	}
	var hasCtx, hasFail, tooMany bool
	var walk func(e error)
	walk = func(e error) {
		if e == nil {
			return
		}
		if se, ok := e.(sinkErr); ok {
			hasFail = true
			wraps = append(wraps, se.k)
			return
		}
		if e == context.Canceled || e == context.DeadlineExceeded {
			hasCtx = true
			return
		}
		if strings.Contains(e.Error(), "too many batcher metadata-value combinations") {
			tooMany = true
		}
		switch u := e.(type) {
		case interface{ Unwrap() []error }:
			for _, x := range u.Unwrap() {
				walk(x)
			}
		case interface{ Unwrap() error }:
			walk(u.Unwrap())
		}
	}
	walk(err)
	permanent = consumererror.IsPermanent(err)
	switch {
	case tooMany:
		kind = "toomany"
	case hasFail && hasCtx:
		kind = "failctx"
	case hasFail:
		kind = "fail"
	case hasCtx:
		kind = "ctx"
	default:
		kind = "other"
	}
	return
}

// ---------------------------------------------------------------- running one scenario

func runScenario(t *testing.T, sc *Scenario, tr int, out *bufio.Writer) {
	r := &runner{
		sc: sc, tr: tr, out: out,
		parked: map[string]*gate{}, emitted: map[string]int{}, stepped: map[string]int{},
		gidProc: map[uint64]string{}, tokCaller: map[any]string{}, shardName: map[any]string{},
		shardWait: map[any]chan struct{}{}, expIdx: map[string]int{}, gidExport: map[uint64]int{},
		held: map[int]*heldExport{}, spanCtx: map[trace.SpanID]string{}, expSpan: map[trace.SpanID]int{},
		returned: map[string]bool{}, started: map[string]bool{},
	}
	for _, k := range sc.Keys {
		r.keys = append(r.keys, strings.ToLower(k))
	}
	sort.Strings(r.keys)
	if sc.Seed != 0 {
		r.rng = rand.New(rand.NewSource(sc.Seed))
	}
	r.t0 = time.Now()
	cbp.VerifHook = r.hook
	defer func() { cbp.VerifHook = nil }()

	f := cbp.NewFactory()
	cfg := f.CreateDefaultConfig().(*cbp.Config)
	cfg.SendBatchSize = uint32(sc.S)
	cfg.SendBatchMaxSize = uint32(sc.M)
	cfg.Timeout = time.Duration(sc.T) * tickDur
	cfg.MaxConcurrency = uint32(sc.K)
	cfg.MetadataKeys = sc.Keys
	cfg.MetadataCardinalityLimit = uint32(sc.L)
	cfg.EarlyReturn = sc.Early
	valid := cfg.Validate() == nil
	hdr := map[string]any{
		"k": sc.ID, "a": sc.S, "b": sc.M, "d": sc.T, "g": sc.K, "h": sc.L,
		"x": sc.Signal, "c": fmt.Sprintf("early=%v multi=%v gated=%v hold=%v honour=%v valid=%v", sc.Early, len(sc.Keys) > 0, sc.Gated, sc.Hold, sc.Honour, valid),
		"early": b2i(sc.Early), "multi": b2i(len(sc.Keys) > 0), "honour": b2i(sc.Honour), "q": runtime.NumCPU(),
	}
	cl := []any{}
	{
		cn := make([]string, 0, len(sc.Callers))
		for c := range sc.Callers {
			cn = append(cn, c)
		}
		sort.Strings(cn)
		for _, c := range cn {
			cs := sc.Callers[c]
			its := 0
			for _, rs := range cs.Shape {
				for _, ss := range rs {
					for _, g := range ss {
						if g > 0 {
							its += g
						}
					}
				}
			}
			cl = append(cl, []any{c, its, cs.Ctx, comboString(r.keys, func(k string) []string { return mdGet(cs.MD, k) })})
		}
	}
	hdr["l"] = cl
	r.log("Begin", hdr)
	if !valid {
		r.log("End", map[string]any{"k": "invalid-config"})
		return
	}

	rec := tracetest.NewSpanRecorder()
	tp := sdktrace.NewTracerProvider(sdktrace.WithSpanProcessor(rec))
	set := processortest.NewNopSettings(component.MustNewType("concurrentbatch"))
	set.TelemetrySettings.TracerProvider = tp
	// the processor's own instruments are read once, at the end of the scenario (BPTelemetry.tla)
	mreader := sdkmetric.NewManualReader()
	set.TelemetrySettings.MeterProvider = sdkmetric.NewMeterProvider(sdkmetric.WithReader(mreader))
	snk := &sink{r: r}
	var proc interface {
		Start(context.Context, component.Host) error
		Shutdown(context.Context) error
	}
	var consume func(ctx context.Context, data any) error
	var err error
	switch sc.Signal {
	case "logs":
		p, e := f.CreateLogs(context.Background(), set, cfg, snk)
		err = e
		if e == nil {
			proc = p
			consume = func(ctx context.Context, d any) error { return p.ConsumeLogs(ctx, d.(plog.Logs)) }
		}
	case "metrics":
		p, e := f.CreateMetrics(context.Background(), set, cfg, snk)
		err = e
		if e == nil {
			proc = p
			consume = func(ctx context.Context, d any) error { return p.ConsumeMetrics(ctx, d.(pmetric.Metrics)) }
		}
	default:
		p, e := f.CreateTraces(context.Background(), set, cfg, snk)
		err = e
		if e == nil {
			proc = p
			consume = func(ctx context.Context, d any) error { return p.ConsumeTraces(ctx, d.(ptrace.Traces)) }
		}
	}
	if err != nil {
		r.log("End", map[string]any{"k": "create-error"})
		return
	}
	if err := proc.Start(context.Background(), componenttest.NewNopHost()); err != nil {
		r.log("End", map[string]any{"k": "start-error"})
		return
	}
	synctest.Wait()

	// contexts: one per name, tagged, carrying client metadata of its first user and a request span
	tracer := tp.Tracer("harness")
	ctxs := map[string]context.Context{}
	cancels := map[string]context.CancelFunc{}
	spans := map[string]trace.Span{}
	spanName := map[string]string{} // context name -> name of the span it carries
	names := make([]string, 0, len(sc.Callers))
	for c := range sc.Callers {
		names = append(names, c)
	}
	sort.Strings(names)
	for pass := 0; pass < 2; pass++ { // contexts with a span of their own first, then those that share one
		for _, c := range names {
			cs := sc.Callers[c]
			if _, ok := ctxs[cs.Ctx]; ok {
				continue
			}
			if _, target := sc.Callers[c], sc.Spans[cs.Ctx].Share; (target != "") != (pass == 1) {
				continue
			}
			base := context.WithValue(context.Background(), tagKey{}, cs.Ctx)
			base = client.NewContext(base, client.Info{Metadata: client.NewMetadata(cs.MD)})
			spec := sc.Spans[cs.Ctx]
			if other, ok := ctxs[spec.Share]; ok && spec.Share != "" {
				// the same span as the other context, its own cancellation
				base = trace.ContextWithSpan(base, trace.SpanFromContext(other))
				spanName[cs.Ctx] = spanName[spec.Share]
			} else {
				spanName[cs.Ctx] = cs.Ctx
				var id trace.SpanID
				var tid trace.TraceID
				hsh := sha256.Sum256([]byte(sc.ID + "/" + cs.Ctx))
				copy(id[:], hsh[:8])
				copy(tid[:], hsh[8:24])
				switch spec.Kind {
				case "remote":
					sctx := trace.NewSpanContext(trace.SpanContextConfig{TraceID: tid, SpanID: id, TraceFlags: trace.FlagsSampled, Remote: true})
					base = trace.ContextWithRemoteSpanContext(base, sctx)
					r.mu.Lock()
					r.spanCtx[id] = cs.Ctx
					r.mu.Unlock()
				case "unsampled":
					sctx := trace.NewSpanContext(trace.SpanContextConfig{TraceID: tid, SpanID: id})
					base = trace.ContextWithSpanContext(base, sctx)
					r.mu.Lock()
					r.spanCtx[id] = cs.Ctx
					r.mu.Unlock()
				default:
					var sp trace.Span
					base, sp = tracer.Start(base, "request-"+cs.Ctx)
					r.mu.Lock()
					r.spanCtx[sp.SpanContext().SpanID()] = cs.Ctx
					r.mu.Unlock()
					spans[cs.Ctx] = sp
				}
			}
			cctx, cancel := context.WithCancel(base)
			if dl, ok := sc.Deadlines[cs.Ctx]; ok && dl > 0 {
				var cancel2 context.CancelFunc
				cctx, cancel2 = context.WithDeadline(cctx, r.t0.Add(time.Duration(dl)*tickDur))
				_ = cancel2 // the outer cancel ends it too
			}
			ctxs[cs.Ctx] = cctx
			cancels[cs.Ctx] = cancel
		}
	}
	expired := map[string]bool{}

	var wg sync.WaitGroup
	call := func(c string) {
		cs, ok := sc.Callers[c]
		if !ok || r.started[c] || r.shutCall {
			return
		}
		r.started[c] = true
		data, items := build(sc.Signal, c, cs.Shape)
		its := make([]any, 0, len(items))
		for _, it := range items {
			its = append(its, []any{ownerOf(it.ID), it.ID, it.Dig})
		}
		combo := comboString(r.keys, func(k string) []string { return mdGet(cs.MD, k) })
		ready := make(chan struct{})
		wg.Add(1)
		r.mu.Lock()
		r.stepped[c]++
		r.mu.Unlock()
		go func() {
			defer wg.Done()
			r.mu.Lock()
			r.gidProc[curGID()] = c
			r.emit("Call", map[string]any{"c": c, "a": len(items), "x": cs.Ctx, "s": combo, "items": its, "k": spanName[cs.Ctx]})
			r.mu.Unlock()
			close(ready)
			err := consume(ctxs[cs.Ctx], data)
			kind, wraps, perm := classify(err)
			r.mu.Lock()
			r.returned[c] = true
			r.emit("Return", map[string]any{"c": c, "k": kind, "l": wraps, "a": b2i(perm), "x": cs.Ctx,
				"b": b2i(ctxs[cs.Ctx].Err() != nil)})
			r.mu.Unlock()
		}()
		<-ready
		synctest.Wait()
	}
	callRacing := func(c string, barrier chan struct{}) {
		cs, ok := sc.Callers[c]
		if !ok || r.started[c] || r.shutCall {
			return
		}
		r.started[c] = true
		data, items := build(sc.Signal, c, cs.Shape)
		its := make([]any, 0, len(items))
		for _, it := range items {
			its = append(its, []any{ownerOf(it.ID), it.ID, it.Dig})
		}
		combo := comboString(r.keys, func(k string) []string { return mdGet(cs.MD, k) })
		wg.Add(1)
		r.mu.Lock()
		r.emit("Call", map[string]any{"c": c, "a": len(items), "x": cs.Ctx, "s": combo, "items": its, "k": spanName[cs.Ctx]})
		r.mu.Unlock()
		registered := make(chan struct{})
		go func() {
			defer wg.Done()
			r.mu.Lock()
			r.gidProc[curGID()] = c
			r.mu.Unlock()
			close(registered)
			<-barrier
			err := consume(ctxs[cs.Ctx], data)
			kind, wraps, perm := classify(err)
			r.mu.Lock()
			r.returned[c] = true
			r.emit("Return", map[string]any{"c": c, "k": kind, "l": wraps, "a": b2i(perm), "x": cs.Ctx,
				"b": b2i(ctxs[cs.Ctx].Err() != nil)})
			r.mu.Unlock()
		}()
		<-registered
	}
	shutdown := func() {
		if r.shutCall {
			return
		}
		r.shutCall = true
		wg.Add(1)
		r.log("ShutdownCall", nil)
		go func() {
			defer wg.Done()
			// Shutdown's own context: the component must wait for accepted work whatever becomes of it
			sctx := context.Background()
			switch sc.ShutCtx {
			case "cancelled":
				c2, cf := context.WithCancel(sctx)
				cf()
				sctx = c2
			case "deadline":
				c2, cf := context.WithTimeout(sctx, tickDur)
				defer cf()
				sctx = c2
			}
			_ = proc.Shutdown(sctx)
			r.mu.Lock()
			r.shutRet = true
			r.emit("ShutdownReturn", nil)
			r.mu.Unlock()
		}()
		synctest.Wait()
	}
	allReturned := func() bool {
		r.mu.Lock()
		defer r.mu.Unlock()
		for c := range r.started {
			if !r.returned[c] {
				return false
			}
		}
		return true
	}
	tick := func(d int) {
		r.releaseAll()
		r.mu.Lock()
		r.emit("Quiet", map[string]any{"a": len(r.heldOrder)})
		r.mu.Unlock()
		from := r.now()
		r.mu.Lock()
		r.ticking = true
		r.mu.Unlock()
		// A deadline that falls into this tick: time is taken to one millisecond before it, the expiry is recorded
		// (with the time of the deadline itself), then the last millisecond passes - what goroutines do because of
		// the expiry follows its record in the trace and carries the same time.
		{
			ms := int(tickDur / time.Millisecond)
			to := from + d*ms
			type dlx struct {
				x  string
				at int
			}
			var due []dlx
			for x, dl := range sc.Deadlines {
				if _, ok := ctxs[x]; ok && dl > 0 && !expired[x] && dl*ms > from && dl*ms <= to {
					due = append(due, dlx{x, dl * ms})
				}
			}
			sort.Slice(due, func(a, b int) bool { return due[a].at < due[b].at || (due[a].at == due[b].at && due[a].x < due[b].x) })
			for i := 0; i < len(due); {
				q := due[i]
				if wait := q.at - 1 - r.now(); wait > 0 {
					time.Sleep(time.Duration(wait) * time.Millisecond)
					synctest.Wait()
				}
				// every deadline of this instant is recorded before the instant is reached: contexts that expire
				// together take effect together, and no reaction may precede the record of its cause
				for ; i < len(due) && due[i].at == q.at; i++ {
					expired[due[i].x] = true
					r.log("Cancel", map[string]any{"x": due[i].x, "k": "deadline", "t": due[i].at})
				}
				if wait := q.at - r.now(); wait > 0 {
					time.Sleep(time.Duration(wait) * time.Millisecond)
					synctest.Wait()
				}
			}
			if rest := to - r.now(); rest > 0 {
				time.Sleep(time.Duration(rest) * time.Millisecond)
			}
		}
		synctest.Wait()
		r.mu.Lock()
		r.ticking = false
		r.emit("Tick", map[string]any{"a": from, "b": r.now()})
		r.mu.Unlock()
	}
	// drain: run everything to completion, releasing gates (seeded order) and held exports
	drain := func(until func() bool) {
		idle := 0
		for i := 0; i < 1000000; i++ {
			synctest.Wait()
			if until() {
				return
			}
			ps := r.parkedList()
			r.mu.Lock()
			nh := len(r.heldOrder)
			r.mu.Unlock()
			switch {
			case len(ps) > 0 && (nh == 0 || r.rng == nil || r.rng.Intn(3) > 0):
				r.force(r.pick(ps))
				idle = 0
			case nh > 0:
				r.mu.Lock()
				k := r.heldOrder[0]
				if r.rng != nil {
					k = r.heldOrder[r.rng.Intn(nh)]
				}
				r.mu.Unlock()
				r.endExport(k, r.nextResult())
				idle = 0
			default:
				if sc.T > 0 && sc.S > 0 && idle < 3 {
					idle++
					tick(sc.T)
				} else {
					r.log("Quiet", map[string]any{"a": 0})
					return
				}
			}
		}
	}

	for _, st := range sc.Steps {
		if len(st) == 0 {
			continue
		}
		op, _ := st[0].(string)
		arg := func(i int) string {
			if i < len(st) {
				switch v := st[i].(type) {
				case string:
					return v
				case float64:
					return strconv.Itoa(int(v))
				}
			}
			return ""
		}
		switch op {
		case "call":
			call(arg(1))
		case "step":
			r.step(arg(1))
		case "cancel":
			if cf, ok := cancels[arg(1)]; ok {
				r.log("Cancel", map[string]any{"x": arg(1)})
				cf()
				synctest.Wait()
			}
		case "tick":
			d, _ := strconv.Atoi(arg(1))
			if d > 0 {
				tick(d)
			}
		case "end":
			k, _ := strconv.Atoi(arg(1))
			if k == 0 { // oldest held
				r.mu.Lock()
				if len(r.heldOrder) > 0 {
					k = r.heldOrder[0]
				}
				r.mu.Unlock()
			}
			res := arg(2)
			if res == "" {
				res = "ok"
			}
			r.endExport(k, res)
		case "shutdown":
			shutdown()
		case "race":
			// start (or release) the listed callers at the same instant and let them run through
			// admission and enqueue without parking, so that they really race for locks and slots
			var gates []*gate
			startTogether := make(chan struct{})
			r.mu.Lock()
			r.raceBarrier = make(chan struct{})
			r.raceExpected = len(st) - 1
			r.raceArrived = 0
			r.mu.Unlock()
			for i := 1; i < len(st); i++ {
				c := arg(i)
				r.mu.Lock()
				r.stepped[c] += 4
				if g := r.parked[c]; g != nil {
					r.unparkLocked(c)
					gates = append(gates, g)
				}
				r.mu.Unlock()
				if !r.started[c] {
					callRacing(c, startTogether)
				}
			}
			for _, g := range gates {
				close(g.ch)
			}
			close(startTogether)
			synctest.Wait()
			// racers that hit an existing shard never reach the barrier: let the others go
			r.mu.Lock()
			if bar := r.raceBarrier; bar != nil {
				r.raceBarrier = nil
				r.mu.Unlock()
				close(bar)
			} else {
				r.mu.Unlock()
			}
			synctest.Wait()
		case "releaseall":
			r.releaseAll()
		case "quiet":
			// a quiescent point without time passing: every gate open, every goroutine blocked for good
			r.releaseAll()
			r.mu.Lock()
			r.emit("Quiet", map[string]any{"a": len(r.heldOrder)})
			r.mu.Unlock()
		case "free":
			r.mu.Lock()
			r.freeRun = true
			r.mu.Unlock()
			r.releaseAll()
		}
	}
	// completion
	drain(allReturned)
	stuck := false
	if !allReturned() {
		stuck = true
		r.mu.Lock()
		for _, c := range names {
			if r.started[c] && !r.returned[c] {
				r.emit("Stuck", map[string]any{"c": c, "k": "call"})
			}
		}
		r.mu.Unlock()
	}
	shutdown()
	drain(func() bool { r.mu.Lock(); defer r.mu.Unlock(); return r.shutRet })
	r.mu.Lock()
	if !r.shutRet {
		stuck = true
		r.emit("Stuck", map[string]any{"k": "shutdown"})
	}
	r.mu.Unlock()
	// back links of the request spans
	for x, sp := range spans {
		var l []any
		if ro, ok := sp.(sdktrace.ReadOnlySpan); ok {
			r.mu.Lock()
			for _, lk := range ro.Links() {
				l = append(l, r.expSpan[lk.SpanContext.SpanID()])
			}
			r.mu.Unlock()
		}
		if l == nil {
			l = []any{}
		}
		r.log("BackLinks", map[string]any{"x": x, "l": l})
		sp.End()
	}
	// cleanup so that the bubble can end: cancel everything, release everything
	if stuck {
		r.mu.Lock()
		r.freeRun = true
		r.mu.Unlock()
		for x, cf := range cancels {
			r.log("Cancel", map[string]any{"x": x, "k": "cleanup"})
			cf()
		}
		for i := 0; i < 1000; i++ {
			r.releaseAll()
			r.mu.Lock()
			nh := len(r.heldOrder)
			var k int
			if nh > 0 {
				k = r.heldOrder[0]
			}
			r.mu.Unlock()
			if nh == 0 {
				break
			}
			r.endExport(k, "ok")
		}
		synctest.Wait()
	}
	// nothing may stay parked at a gate when the bubble ends (e.g. the loop of a shard created by a
	// call that raced Shutdown: it sees the closed shutdown channel and exits once released)
	r.mu.Lock()
	r.freeRun = true
	r.mu.Unlock()
	for i := 0; i < 1000; i++ {
		r.releaseAll()
		r.mu.Lock()
		nh := len(r.heldOrder)
		k := 0
		if nh > 0 {
			k = r.heldOrder[0]
		}
		r.mu.Unlock()
		if nh == 0 {
			break
		}
		r.endExport(k, r.nextResult())
	}
	done := make(chan struct{})
	go func() { wg.Wait(); close(done) }()
	synctest.Wait()
	select {
	case <-done:
		r.log("Telemetry", readTelemetry(mreader))
		r.log("End", map[string]any{"k": "ok"})
	default:
		r.log("End", map[string]any{"k": "leak"})
		// the bubble cannot end; the orchestrator treats the abort as the Leak it is
		_ = tp.Shutdown(context.Background())
		panic("verif: goroutines of the processor are still blocked after cleanup")
	}
	for _, cf := range cancels {
		cf()
	}
	_ = tp.Shutdown(context.Background())
	_ = errors.New
}

// TestScenarios runs the scenarios of $VERIF_SCENARIOS (a JSON list) starting
// at index $VERIF_START and appends their traces to $VERIF_TRACE_OUT.
func TestScenarios(t *testing.T) {
	path := os.Getenv("VERIF_SCENARIOS")
	outp := os.Getenv("VERIF_TRACE_OUT")
	if path == "" || outp == "" {
		t.Skip("VERIF_SCENARIOS / VERIF_TRACE_OUT not set")
	}
	raw, err := os.ReadFile(path)
	if err != nil {
		t.Fatal(err)
	}
	var scs []Scenario
	if err := json.Unmarshal(raw, &scs); err != nil {
		t.Fatal(err)
	}
	start, _ := strconv.Atoi(os.Getenv("VERIF_START"))
	fh, err := os.OpenFile(outp, os.O_CREATE|os.O_WRONLY|os.O_APPEND, 0o644)
	if err != nil {
		t.Fatal(err)
	}
	defer fh.Close()
	out := bufio.NewWriter(fh)
	// A goroutine blocked on a sync.Mutex is not "durably blocked" for synctest: a mutex deadlock inside the
	// processor makes synctest.Wait hang instead of returning.  A real-time watchdog (outside the bubble) ends the
	// process; the orchestrator re-runs the scenario alone before it believes the hang.
	wd, _ := strconv.Atoi(os.Getenv("VERIF_WATCHDOG_S"))
	if wd <= 0 {
		wd = 45
	}
	for i := start; i < len(scs); i++ {
		sc := &scs[i]
		idx := i
		timer := time.AfterFunc(time.Duration(wd)*time.Second, func() {
			fmt.Fprintf(os.Stderr, "\nVERIF-HANG scenario=%d id=%s\n", idx+1, scs[idx].ID)
			buf := make([]byte, 1<<16)
			n := runtime.Stack(buf, true)
			os.Stderr.Write(buf[:n])
			os.Exit(3)
		})
		synctest.Test(t, func(t *testing.T) {
			runScenario(t, sc, i+1, out)
		})
		timer.Stop()
		out.Flush()
	}
}

// readTelemetry collects the processor's instruments: a = size-trigger sends, b = timeout-trigger sends, d = number
// of batch_send_size records, g = their sum, h = metadata cardinality (-1: an instrument was never reported).
func readTelemetry(rd *sdkmetric.ManualReader) map[string]any {
	out := map[string]any{"a": 0, "b": 0, "d": 0, "g": 0, "h": -1, "k": "ok"}
	var rm metricdata.ResourceMetrics
	if err := rd.Collect(context.Background(), &rm); err != nil {
		out["k"] = "collect-error"
		return out
	}
	for _, sm := range rm.ScopeMetrics {
		for _, m := range sm.Metrics {
			switch d := m.Data.(type) {
			case metricdata.Sum[int64]:
				var v int64
				for _, dp := range d.DataPoints {
					v += dp.Value
				}
				switch {
				case strings.HasSuffix(m.Name, "batch_size_trigger_send"):
					out["a"] = int(v)
				case strings.HasSuffix(m.Name, "timeout_trigger_send"):
					out["b"] = int(v)
				case strings.HasSuffix(m.Name, "metadata_cardinality"):
					out["h"] = int(v)
				}
			case metricdata.Histogram[int64]:
				if strings.HasSuffix(m.Name, "batch_send_size") {
					var c uint64
					var sum int64
					for _, dp := range d.DataPoints {
						c += dp.Count
						sum += dp.Sum
					}
					out["d"], out["g"] = int(c), int(sum)
				}
			}
		}
	}
	return out
}
