module verif/harness/bp

go 1.26

require (
	github.com/open-telemetry/otel-arrow/collector/processor/concurrentbatchprocessor v0.0.0
	go.opentelemetry.io/collector/client v1.28.0
	go.opentelemetry.io/collector/component v1.29.0
	go.opentelemetry.io/collector/component/componenttest v0.123.0
	go.opentelemetry.io/collector/consumer v1.29.0
	go.opentelemetry.io/collector/consumer/consumererror v0.123.0
	go.opentelemetry.io/collector/pdata v1.29.0
	go.opentelemetry.io/collector/processor v1.29.0
	go.opentelemetry.io/collector/processor/processortest v0.123.0
	go.opentelemetry.io/otel/sdk v1.35.0
	go.opentelemetry.io/otel/sdk/metric v1.35.0
	go.opentelemetry.io/otel/trace v1.35.0
)

require (
	github.com/davecgh/go-spew v1.1.1 // indirect
	github.com/go-logr/logr v1.4.2 // indirect
	github.com/go-logr/stdr v1.2.2 // indirect
	github.com/gogo/protobuf v1.3.2 // indirect
	github.com/google/uuid v1.6.0 // indirect
	github.com/hashicorp/go-version v1.7.0 // indirect
	github.com/json-iterator/go v1.1.12 // indirect
	github.com/modern-go/concurrent v0.0.0-20180306012644-bacd9c7ef1dd // indirect
	github.com/modern-go/reflect2 v1.0.2 // indirect
	github.com/pmezard/go-difflib v1.0.0 // indirect
	github.com/stretchr/testify v1.10.0 // indirect
	go.opentelemetry.io/auto/sdk v1.1.0 // indirect
	go.opentelemetry.io/collector/component/componentstatus v0.123.0 // indirect
	go.opentelemetry.io/collector/consumer/consumertest v0.123.0 // indirect
	go.opentelemetry.io/collector/consumer/xconsumer v0.123.0 // indirect
	go.opentelemetry.io/collector/featuregate v1.29.0 // indirect
	go.opentelemetry.io/collector/internal/telemetry v0.123.0 // indirect
	go.opentelemetry.io/collector/pdata/pprofile v0.123.0 // indirect
	go.opentelemetry.io/collector/pdata/testdata v0.123.0 // indirect
	go.opentelemetry.io/collector/pipeline v0.123.0 // indirect
	go.opentelemetry.io/collector/processor/xprocessor v0.123.0 // indirect
	go.opentelemetry.io/contrib/bridges/otelzap v0.10.0 // indirect
	go.opentelemetry.io/otel v1.35.0 // indirect
	go.opentelemetry.io/otel/log v0.11.0 // indirect
	go.opentelemetry.io/otel/metric v1.35.0 // indirect
	go.uber.org/multierr v1.11.0 // indirect
	go.uber.org/zap v1.27.0 // indirect
	golang.org/x/net v0.37.0 // indirect
	golang.org/x/sync v0.12.0 // indirect
	golang.org/x/sys v0.31.0 // indirect
	golang.org/x/text v0.23.0 // indirect
	google.golang.org/genproto/googleapis/rpc v0.0.0-20250115164207-1a7da9e5054f // indirect
	google.golang.org/grpc v1.71.0 // indirect
	google.golang.org/protobuf v1.36.6 // indirect
	gopkg.in/yaml.v3 v3.0.1 // indirect
)

replace github.com/open-telemetry/otel-arrow/collector/processor/concurrentbatchprocessor => /repo/collector/processor/concurrentbatchprocessor
