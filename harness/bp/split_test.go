//go:build verif && !nosplit

package bp

import (
	"bufio"
	"encoding/json"
	"fmt"
	"os"
	"strconv"
	"strings"
	"testing"

	cbp "github.com/open-telemetry/otel-arrow/collector/processor/concurrentbatchprocessor"
	"go.opentelemetry.io/collector/pdata/pcommon"
	"go.opentelemetry.io/collector/pdata/plog"
	"go.opentelemetry.io/collector/pdata/pmetric"
	"go.opentelemetry.io/collector/pdata/ptrace"
)

// A split case enumerated by Split.tla: the shape of a tree and a size.
type splitCase struct {
	Shape json.RawMessage `json:"shape"`
	Size  int             `json:"size"`
}

func pstr(p []int) string {
	s := make([]string, len(p))
	for i, x := range p {
		s[i] = strconv.Itoa(x)
	}
	return strings.Join(s, ".")
}

func ppath(s string) []any {
	out := []any{}
	if s == "" {
		return []any{-1}
	}
	for _, x := range strings.Split(s, ".") {
		n, err := strconv.Atoi(x)
		if err != nil {
			return []any{-1}
		}
		out = append(out, n)
	}
	return out
}

func app(p []int, k int) []int { return append(append([]int{}, p...), k) }

// identity of containers: everything derived from the path
func setRes(r pcommon.Resource, p []int) {
	r.Attributes().PutStr("p", pstr(p))
	r.Attributes().PutInt("n", int64(len(p)))
	r.SetDroppedAttributesCount(uint32(p[0] + 3))
}
func okRes(r pcommon.Resource, url string) (string, int) {
	v, _ := r.Attributes().Get("p")
	p := v.Str()
	want := pcommon.NewResource()
	ip := []int{}
	for _, x := range ppath(p) {
		ip = append(ip, x.(int))
	}
	if len(ip) == 0 || ip[0] < 0 {
		return p, 0
	}
	setRes(want, ip)
	return p, b2i(fmt.Sprint(want.Attributes().AsRaw()) == fmt.Sprint(r.Attributes().AsRaw()) && want.DroppedAttributesCount() == r.DroppedAttributesCount() && url == "https://r/"+p)
}
func setScope(s pcommon.InstrumentationScope, p []int) {
	s.SetName("scope-" + pstr(p))
	s.SetVersion("v" + pstr(p))
	s.Attributes().PutStr("p", pstr(p))
	s.SetDroppedAttributesCount(uint32(p[len(p)-1] + 9))
}
func okScope(s pcommon.InstrumentationScope, url string) (string, int) {
	v, _ := s.Attributes().Get("p")
	p := v.Str()
	return p, b2i(s.Name() == "scope-"+p && s.Version() == "v"+p && s.Attributes().Len() == 1 && url == "https://s/"+p && s.DroppedAttributesCount() > 0)
}

func splitTracesCase(shape [][]int, size int) (dest, keep []any) {
	td := ptrace.NewTraces()
	for i, r := range shape {
		rs := td.ResourceSpans().AppendEmpty()
		setRes(rs.Resource(), []int{i + 1})
		rs.SetSchemaUrl("https://r/" + pstr([]int{i + 1}))
		for j, n := range r {
			ss := rs.ScopeSpans().AppendEmpty()
			setScope(ss.Scope(), []int{i + 1, j + 1})
			ss.SetSchemaUrl("https://s/" + pstr([]int{i + 1, j + 1}))
			for k := 0; k < n; k++ {
				sp := ss.Spans().AppendEmpty()
				p := pstr([]int{i + 1, j + 1, k + 1})
				sp.SetName("span-" + p)
				sp.Attributes().PutStr("p", p)
			}
		}
	}
	d := cbp.VerifSplitTraces(size, td)
	conv := func(t ptrace.Traces) []any {
		out := []any{}
		for i := 0; i < t.ResourceSpans().Len(); i++ {
			rs := t.ResourceSpans().At(i)
			rp, rok := okRes(rs.Resource(), rs.SchemaUrl())
			scs := []any{}
			for j := 0; j < rs.ScopeSpans().Len(); j++ {
				ss := rs.ScopeSpans().At(j)
				sp, sok := okScope(ss.Scope(), ss.SchemaUrl())
				its := []any{}
				for k := 0; k < ss.Spans().Len(); k++ {
					x := ss.Spans().At(k)
					v, _ := x.Attributes().Get("p")
					its = append(its, []any{ppath(v.Str()), b2i(x.Name() == "span-"+v.Str())})
				}
				scs = append(scs, []any{ppath(sp), sok, its})
			}
			out = append(out, []any{ppath(rp), rok, scs})
		}
		return out
	}
	return conv(d), conv(td)
}

func splitLogsCase(shape [][]int, size int) (dest, keep []any) {
	ld := plog.NewLogs()
	for i, r := range shape {
		rl := ld.ResourceLogs().AppendEmpty()
		setRes(rl.Resource(), []int{i + 1})
		rl.SetSchemaUrl("https://r/" + pstr([]int{i + 1}))
		for j, n := range r {
			sl := rl.ScopeLogs().AppendEmpty()
			setScope(sl.Scope(), []int{i + 1, j + 1})
			sl.SetSchemaUrl("https://s/" + pstr([]int{i + 1, j + 1}))
			for k := 0; k < n; k++ {
				lr := sl.LogRecords().AppendEmpty()
				p := pstr([]int{i + 1, j + 1, k + 1})
				lr.Body().SetStr("log-" + p)
				lr.Attributes().PutStr("p", p)
			}
		}
	}
	d := cbp.VerifSplitLogs(size, ld)
	conv := func(t plog.Logs) []any {
		out := []any{}
		for i := 0; i < t.ResourceLogs().Len(); i++ {
			rl := t.ResourceLogs().At(i)
			rp, rok := okRes(rl.Resource(), rl.SchemaUrl())
			scs := []any{}
			for j := 0; j < rl.ScopeLogs().Len(); j++ {
				sl := rl.ScopeLogs().At(j)
				sp, sok := okScope(sl.Scope(), sl.SchemaUrl())
				its := []any{}
				for k := 0; k < sl.LogRecords().Len(); k++ {
					x := sl.LogRecords().At(k)
					v, _ := x.Attributes().Get("p")
					its = append(its, []any{ppath(v.Str()), b2i(x.Body().Str() == "log-"+v.Str())})
				}
				scs = append(scs, []any{ppath(sp), sok, its})
			}
			out = append(out, []any{ppath(rp), rok, scs})
		}
		return out
	}
	return conv(d), conv(ld)
}

// metric types cycle with the metric's position so that every type is split
func setMetric(m pmetric.Metric, p []int, n int) {
	ps := pstr(p)
	m.SetName("metric-" + ps)
	m.SetDescription("desc-" + ps)
	m.SetUnit("u" + ps)
	m.Metadata().PutStr("p", ps)
	stamp := func(a pcommon.Map, k int) { a.PutStr("p", pstr(app(p, k+1))) }
	switch (p[0] + p[1] + p[2]) % 5 {
	case 0:
		g := m.SetEmptyGauge()
		for k := 0; k < n; k++ {
			dp := g.DataPoints().AppendEmpty()
			stamp(dp.Attributes(), k)
			dp.SetIntValue(int64(k + 1))
		}
	case 1:
		s := m.SetEmptySum()
		s.SetIsMonotonic(true)
		s.SetAggregationTemporality(pmetric.AggregationTemporalityDelta)
		for k := 0; k < n; k++ {
			dp := s.DataPoints().AppendEmpty()
			stamp(dp.Attributes(), k)
			dp.SetDoubleValue(float64(k) + 0.5)
		}
	case 2:
		h := m.SetEmptyHistogram()
		h.SetAggregationTemporality(pmetric.AggregationTemporalityCumulative)
		for k := 0; k < n; k++ {
			dp := h.DataPoints().AppendEmpty()
			stamp(dp.Attributes(), k)
			dp.SetCount(uint64(k + 1))
		}
	case 3:
		h := m.SetEmptyExponentialHistogram()
		h.SetAggregationTemporality(pmetric.AggregationTemporalityDelta)
		for k := 0; k < n; k++ {
			dp := h.DataPoints().AppendEmpty()
			stamp(dp.Attributes(), k)
			dp.SetCount(uint64(k + 1))
		}
	case 4:
		s := m.SetEmptySummary()
		for k := 0; k < n; k++ {
			dp := s.DataPoints().AppendEmpty()
			stamp(dp.Attributes(), k)
			dp.SetCount(uint64(k + 1))
		}
	}
}

func metricView(m pmetric.Metric) (string, int, []any) {
	v, _ := m.Metadata().Get("p")
	ps := v.Str()
	its := []any{}
	ok := m.Name() == "metric-"+ps && m.Description() == "desc-"+ps && m.Unit() == "u"+ps && m.Metadata().Len() == 1
	add := func(a pcommon.Map, good bool) {
		pv, _ := a.Get("p")
		its = append(its, []any{ppath(pv.Str()), b2i(good)})
	}
	p := ppath(ps)
	want := -1
	if len(p) == 3 {
		want = (p[0].(int) + p[1].(int) + p[2].(int)) % 5
	}
	switch m.Type() {
	case pmetric.MetricTypeGauge:
		ok = ok && want == 0
		for k := 0; k < m.Gauge().DataPoints().Len(); k++ {
			dp := m.Gauge().DataPoints().At(k)
			add(dp.Attributes(), dp.IntValue() > 0)
		}
	case pmetric.MetricTypeSum:
		ok = ok && want == 1 && m.Sum().IsMonotonic() && m.Sum().AggregationTemporality() == pmetric.AggregationTemporalityDelta
		for k := 0; k < m.Sum().DataPoints().Len(); k++ {
			dp := m.Sum().DataPoints().At(k)
			add(dp.Attributes(), dp.DoubleValue() > 0)
		}
	case pmetric.MetricTypeHistogram:
		ok = ok && want == 2 && m.Histogram().AggregationTemporality() == pmetric.AggregationTemporalityCumulative
		for k := 0; k < m.Histogram().DataPoints().Len(); k++ {
			dp := m.Histogram().DataPoints().At(k)
			add(dp.Attributes(), dp.Count() > 0)
		}
	case pmetric.MetricTypeExponentialHistogram:
		ok = ok && want == 3 && m.ExponentialHistogram().AggregationTemporality() == pmetric.AggregationTemporalityDelta
		for k := 0; k < m.ExponentialHistogram().DataPoints().Len(); k++ {
			dp := m.ExponentialHistogram().DataPoints().At(k)
			add(dp.Attributes(), dp.Count() > 0)
		}
	case pmetric.MetricTypeSummary:
		ok = ok && want == 4
		for k := 0; k < m.Summary().DataPoints().Len(); k++ {
			dp := m.Summary().DataPoints().At(k)
			add(dp.Attributes(), dp.Count() > 0)
		}
	default:
		ok = false
	}
	return ps, b2i(ok), its
}

func splitMetricsCase(shape [][][]int, size int) (dest, keep []any) {
	md := pmetric.NewMetrics()
	for i, r := range shape {
		rm := md.ResourceMetrics().AppendEmpty()
		setRes(rm.Resource(), []int{i + 1})
		rm.SetSchemaUrl("https://r/" + pstr([]int{i + 1}))
		for j, s := range r {
			sm := rm.ScopeMetrics().AppendEmpty()
			setScope(sm.Scope(), []int{i + 1, j + 1})
			sm.SetSchemaUrl("https://s/" + pstr([]int{i + 1, j + 1}))
			for k, n := range s {
				setMetric(sm.Metrics().AppendEmpty(), []int{i + 1, j + 1, k + 1}, n)
			}
		}
	}
	d := cbp.VerifSplitMetrics(size, md)
	conv := func(t pmetric.Metrics) []any {
		out := []any{}
		for i := 0; i < t.ResourceMetrics().Len(); i++ {
			rm := t.ResourceMetrics().At(i)
			rp, rok := okRes(rm.Resource(), rm.SchemaUrl())
			scs := []any{}
			for j := 0; j < rm.ScopeMetrics().Len(); j++ {
				sm := rm.ScopeMetrics().At(j)
				sp, sok := okScope(sm.Scope(), sm.SchemaUrl())
				ms := []any{}
				for k := 0; k < sm.Metrics().Len(); k++ {
					mp, mok, its := metricView(sm.Metrics().At(k))
					ms = append(ms, []any{ppath(mp), mok, its})
				}
				scs = append(scs, []any{ppath(sp), sok, ms})
			}
			out = append(out, []any{ppath(rp), rok, scs})
		}
		return out
	}
	return conv(d), conv(md)
}

// TestSplitVectors runs the real split functions on the cases of $VERIF_SPLIT_CASES (one JSON
// object per line, from Split.tla) and writes what they returned to $VERIF_SPLIT_OUT.
func TestSplitVectors(t *testing.T) {
	in, outp := os.Getenv("VERIF_SPLIT_CASES"), os.Getenv("VERIF_SPLIT_OUT")
	if in == "" || outp == "" {
		t.Skip("VERIF_SPLIT_CASES / VERIF_SPLIT_OUT not set")
	}
	depth, _ := strconv.Atoi(os.Getenv("VERIF_SPLIT_DEPTH"))
	fi, err := os.Open(in)
	if err != nil {
		t.Fatal(err)
	}
	defer fi.Close()
	fo, err := os.Create(outp)
	if err != nil {
		t.Fatal(err)
	}
	defer fo.Close()
	w := bufio.NewWriter(fo)
	defer w.Flush()
	sc := bufio.NewScanner(fi)
	sc.Buffer(make([]byte, 1<<20), 1<<24)
	n := 0
	emit := func(c splitCase, sig string, dest, keep []any, perr any) {
		n++
		rec := map[string]any{"n": n, "sig": sig, "shape": c.Shape, "size": c.Size, "dest": dest, "keep": keep, "panic": fmt.Sprint(perr)}
		b, _ := json.Marshal(rec)
		w.Write(b)
		w.WriteByte('\n')
	}
	for sc.Scan() {
		var c splitCase
		if err := json.Unmarshal(sc.Bytes(), &c); err != nil {
			continue
		}
		if depth == 3 {
			var sh [][][]int
			if json.Unmarshal(c.Shape, &sh) != nil {
				continue
			}
			func() {
				defer func() {
					if x := recover(); x != nil {
						emit(c, "metrics", []any{}, []any{}, x)
					}
				}()
				d, k := splitMetricsCase(sh, c.Size)
				emit(c, "metrics", d, k, "")
			}()
			continue
		}
		var sh [][]int
		if json.Unmarshal(c.Shape, &sh) != nil {
			continue
		}
		for _, sig := range []string{"traces", "logs"} {
			func() {
				defer func() {
					if x := recover(); x != nil {
						emit(c, sig, []any{}, []any{}, x)
					}
				}()
				var d, k []any
				if sig == "traces" {
					d, k = splitTracesCase(sh, c.Size)
				} else {
					d, k = splitLogsCase(sh, c.Size)
				}
				emit(c, sig, d, k, "")
			}()
		}
	}
}
