//go:build verif

package bp

import (
	"crypto/sha256"
	"encoding/hex"
	"fmt"

	"go.opentelemetry.io/collector/pdata/pcommon"
	"go.opentelemetry.io/collector/pdata/plog"
	"go.opentelemetry.io/collector/pdata/pmetric"
	"go.opentelemetry.io/collector/pdata/ptrace"
)

// Shape: resources -> scopes -> groups.  For traces and logs a scope's item
// count is the sum of its groups; for metrics each group is one metric with
// that many data points (metric type cycles through all five, a negative
// value is a metric with no data type set).
type Shape [][][]int

// Item is the identity of one span / log record / data point: a unique id and
// a digest covering the item's content and the identity (attributes, names,
// schema URLs, metric descriptor) of the containers it sits in.
type Item struct {
	ID  string
	Dig string
}

func dig(b []byte) string {
	h := sha256.Sum256(b)
	return hex.EncodeToString(h[:6])
}

func fillResource(r pcommon.Resource, c string, i int) {
	r.Attributes().PutStr("res", fmt.Sprintf("%s.r%d", c, i))
	r.Attributes().PutInt("ri", int64(i))
	r.SetDroppedAttributesCount(uint32(i + 1))
}

func fillScope(s pcommon.InstrumentationScope, c string, i, j int) {
	s.SetName(fmt.Sprintf("%s.r%d.s%d", c, i, j))
	s.SetVersion(fmt.Sprintf("v%d", j))
	s.Attributes().PutStr("scope", fmt.Sprintf("%s/%d/%d", c, i, j))
	s.SetDroppedAttributesCount(uint32(j + 7))
}

func schemaURL(kind, c string, i, j int) string {
	return fmt.Sprintf("https://schema.example/%s/%s/%d/%d", kind, c, i, j)
}

// ---------------------------------------------------------------- traces

func buildTraces(c string, sh Shape) (ptrace.Traces, []Item) {
	td := ptrace.NewTraces()
	idx := 0
	for i, rsh := range sh {
		rs := td.ResourceSpans().AppendEmpty()
		fillResource(rs.Resource(), c, i)
		rs.SetSchemaUrl(schemaURL("res", c, i, 0))
		for j, ssh := range rsh {
			ss := rs.ScopeSpans().AppendEmpty()
			fillScope(ss.Scope(), c, i, j)
			ss.SetSchemaUrl(schemaURL("scope", c, i, j))
			cnt := 0
			for _, g := range ssh {
				if g > 0 {
					cnt += g
				}
			}
			for k := 0; k < cnt; k++ {
				idx++
				sp := ss.Spans().AppendEmpty()
				id := fmt.Sprintf("%s.%d", c, idx)
				sp.SetName("span-" + id)
				sp.Attributes().PutStr("vid", id)
				sp.Attributes().PutInt("seq", int64(idx))
				sp.SetTraceID(pcommon.TraceID([16]byte{1, byte(idx), byte(len(c))}))
				sp.SetSpanID(pcommon.SpanID([8]byte{2, byte(idx)}))
				sp.SetStartTimestamp(pcommon.Timestamp(1000 + idx))
				sp.SetEndTimestamp(pcommon.Timestamp(2000 + idx))
				ev := sp.Events().AppendEmpty()
				ev.SetName("ev-" + id)
				sp.Status().SetMessage("st-" + id)
			}
		}
	}
	return td, tracesItems(td)
}

func tracesItems(td ptrace.Traces) []Item {
	var out []Item
	m := ptrace.ProtoMarshaler{}
	for i := 0; i < td.ResourceSpans().Len(); i++ {
		rs := td.ResourceSpans().At(i)
		for j := 0; j < rs.ScopeSpans().Len(); j++ {
			ss := rs.ScopeSpans().At(j)
			for k := 0; k < ss.Spans().Len(); k++ {
				sp := ss.Spans().At(k)
				one := ptrace.NewTraces()
				ors := one.ResourceSpans().AppendEmpty()
				rs.Resource().CopyTo(ors.Resource())
				ors.SetSchemaUrl(rs.SchemaUrl())
				oss := ors.ScopeSpans().AppendEmpty()
				ss.Scope().CopyTo(oss.Scope())
				oss.SetSchemaUrl(ss.SchemaUrl())
				sp.CopyTo(oss.Spans().AppendEmpty())
				b, _ := m.MarshalTraces(one)
				id := "?"
				if v, ok := sp.Attributes().Get("vid"); ok {
					id = v.Str()
				}
				out = append(out, Item{ID: id, Dig: dig(b)})
			}
		}
	}
	return out
}

// ---------------------------------------------------------------- logs

func buildLogs(c string, sh Shape) (plog.Logs, []Item) {
	ld := plog.NewLogs()
	idx := 0
	for i, rsh := range sh {
		rl := ld.ResourceLogs().AppendEmpty()
		fillResource(rl.Resource(), c, i)
		rl.SetSchemaUrl(schemaURL("res", c, i, 0))
		for j, ssh := range rsh {
			sl := rl.ScopeLogs().AppendEmpty()
			fillScope(sl.Scope(), c, i, j)
			sl.SetSchemaUrl(schemaURL("scope", c, i, j))
			cnt := 0
			for _, g := range ssh {
				if g > 0 {
					cnt += g
				}
			}
			for k := 0; k < cnt; k++ {
				idx++
				lr := sl.LogRecords().AppendEmpty()
				id := fmt.Sprintf("%s.%d", c, idx)
				lr.Body().SetStr("body-" + id)
				lr.Attributes().PutStr("vid", id)
				lr.SetTimestamp(pcommon.Timestamp(1000 + idx))
				lr.SetSeverityNumber(plog.SeverityNumber(idx % 24))
				lr.SetSeverityText("sev-" + id)
			}
		}
	}
	return ld, logsItems(ld)
}

func logsItems(ld plog.Logs) []Item {
	var out []Item
	m := plog.ProtoMarshaler{}
	for i := 0; i < ld.ResourceLogs().Len(); i++ {
		rl := ld.ResourceLogs().At(i)
		for j := 0; j < rl.ScopeLogs().Len(); j++ {
			sl := rl.ScopeLogs().At(j)
			for k := 0; k < sl.LogRecords().Len(); k++ {
				lr := sl.LogRecords().At(k)
				one := plog.NewLogs()
				orl := one.ResourceLogs().AppendEmpty()
				rl.Resource().CopyTo(orl.Resource())
				orl.SetSchemaUrl(rl.SchemaUrl())
				osl := orl.ScopeLogs().AppendEmpty()
				sl.Scope().CopyTo(osl.Scope())
				osl.SetSchemaUrl(sl.SchemaUrl())
				lr.CopyTo(osl.LogRecords().AppendEmpty())
				b, _ := m.MarshalLogs(one)
				id := "?"
				if v, ok := lr.Attributes().Get("vid"); ok {
					id = v.Str()
				}
				out = append(out, Item{ID: id, Dig: dig(b)})
			}
		}
	}
	return out
}

// ---------------------------------------------------------------- metrics

func buildMetrics(c string, sh Shape) (pmetric.Metrics, []Item) {
	md := pmetric.NewMetrics()
	idx := 0
	mi := 0
	for i, rsh := range sh {
		rm := md.ResourceMetrics().AppendEmpty()
		fillResource(rm.Resource(), c, i)
		rm.SetSchemaUrl(schemaURL("res", c, i, 0))
		for j, ssh := range rsh {
			sm := rm.ScopeMetrics().AppendEmpty()
			fillScope(sm.Scope(), c, i, j)
			sm.SetSchemaUrl(schemaURL("scope", c, i, j))
			for _, g := range ssh {
				m := sm.Metrics().AppendEmpty()
				mi++
				m.SetName(fmt.Sprintf("metric-%s-%d", c, mi))
				m.SetDescription(fmt.Sprintf("desc-%d", mi))
				m.SetUnit(fmt.Sprintf("u%d", mi))
				m.Metadata().PutStr("md", fmt.Sprintf("%s-%d", c, mi))
				if g < 0 {
					continue // no data type at all
				}
				stamp := func(attrs pcommon.Map) {
					idx++
					attrs.PutStr("vid", fmt.Sprintf("%s.%d", c, idx))
				}
				switch mi % 5 {
				case 0:
					x := m.SetEmptyGauge()
					for k := 0; k < g; k++ {
						dp := x.DataPoints().AppendEmpty()
						stamp(dp.Attributes())
						dp.SetIntValue(int64(idx))
						dp.SetTimestamp(pcommon.Timestamp(idx))
					}
				case 1:
					x := m.SetEmptySum()
					x.SetIsMonotonic(true)
					x.SetAggregationTemporality(pmetric.AggregationTemporalityCumulative)
					for k := 0; k < g; k++ {
						dp := x.DataPoints().AppendEmpty()
						stamp(dp.Attributes())
						dp.SetDoubleValue(float64(idx) + 0.5)
						dp.SetStartTimestamp(pcommon.Timestamp(idx))
					}
				case 2:
					x := m.SetEmptyHistogram()
					x.SetAggregationTemporality(pmetric.AggregationTemporalityDelta)
					for k := 0; k < g; k++ {
						dp := x.DataPoints().AppendEmpty()
						stamp(dp.Attributes())
						dp.SetCount(uint64(idx))
						dp.SetSum(float64(idx))
						dp.BucketCounts().FromRaw([]uint64{1, uint64(idx)})
						dp.ExplicitBounds().FromRaw([]float64{1.5})
					}
				case 3:
					x := m.SetEmptyExponentialHistogram()
					x.SetAggregationTemporality(pmetric.AggregationTemporalityCumulative)
					for k := 0; k < g; k++ {
						dp := x.DataPoints().AppendEmpty()
						stamp(dp.Attributes())
						dp.SetCount(uint64(idx))
						dp.SetScale(int32(idx % 3))
						dp.Positive().BucketCounts().FromRaw([]uint64{uint64(idx)})
					}
				case 4:
					x := m.SetEmptySummary()
					for k := 0; k < g; k++ {
						dp := x.DataPoints().AppendEmpty()
						stamp(dp.Attributes())
						dp.SetCount(uint64(idx))
						q := dp.QuantileValues().AppendEmpty()
						q.SetQuantile(0.5)
						q.SetValue(float64(idx))
					}
				}
			}
		}
	}
	return md, metricsItems(md)
}

func metricsItems(md pmetric.Metrics) []Item {
	var out []Item
	pm := pmetric.ProtoMarshaler{}
	for i := 0; i < md.ResourceMetrics().Len(); i++ {
		rm := md.ResourceMetrics().At(i)
		for j := 0; j < rm.ScopeMetrics().Len(); j++ {
			sm := rm.ScopeMetrics().At(j)
			for k := 0; k < sm.Metrics().Len(); k++ {
				m := sm.Metrics().At(k)
				// container skeleton: resource, scope, metric descriptor without points
				mk := func() (pmetric.Metrics, pmetric.Metric) {
					one := pmetric.NewMetrics()
					orm := one.ResourceMetrics().AppendEmpty()
					rm.Resource().CopyTo(orm.Resource())
					orm.SetSchemaUrl(rm.SchemaUrl())
					osm := orm.ScopeMetrics().AppendEmpty()
					sm.Scope().CopyTo(osm.Scope())
					osm.SetSchemaUrl(sm.SchemaUrl())
					om := osm.Metrics().AppendEmpty()
					om.SetName(m.Name())
					om.SetDescription(m.Description())
					om.SetUnit(m.Unit())
					m.Metadata().CopyTo(om.Metadata())
					return one, om
				}
				emit := func(one pmetric.Metrics, attrs pcommon.Map) {
					b, _ := pm.MarshalMetrics(one)
					id := "?"
					if v, ok := attrs.Get("vid"); ok {
						id = v.Str()
					}
					out = append(out, Item{ID: id, Dig: dig(b)})
				}
				switch m.Type() {
				case pmetric.MetricTypeGauge:
					for p := 0; p < m.Gauge().DataPoints().Len(); p++ {
						one, om := mk()
						m.Gauge().DataPoints().At(p).CopyTo(om.SetEmptyGauge().DataPoints().AppendEmpty())
						emit(one, m.Gauge().DataPoints().At(p).Attributes())
					}
				case pmetric.MetricTypeSum:
					for p := 0; p < m.Sum().DataPoints().Len(); p++ {
						one, om := mk()
						x := om.SetEmptySum()
						x.SetIsMonotonic(m.Sum().IsMonotonic())
						x.SetAggregationTemporality(m.Sum().AggregationTemporality())
						m.Sum().DataPoints().At(p).CopyTo(x.DataPoints().AppendEmpty())
						emit(one, m.Sum().DataPoints().At(p).Attributes())
					}
				case pmetric.MetricTypeHistogram:
					for p := 0; p < m.Histogram().DataPoints().Len(); p++ {
						one, om := mk()
						x := om.SetEmptyHistogram()
						x.SetAggregationTemporality(m.Histogram().AggregationTemporality())
						m.Histogram().DataPoints().At(p).CopyTo(x.DataPoints().AppendEmpty())
						emit(one, m.Histogram().DataPoints().At(p).Attributes())
					}
				case pmetric.MetricTypeExponentialHistogram:
					for p := 0; p < m.ExponentialHistogram().DataPoints().Len(); p++ {
						one, om := mk()
						x := om.SetEmptyExponentialHistogram()
						x.SetAggregationTemporality(m.ExponentialHistogram().AggregationTemporality())
						m.ExponentialHistogram().DataPoints().At(p).CopyTo(x.DataPoints().AppendEmpty())
						emit(one, m.ExponentialHistogram().DataPoints().At(p).Attributes())
					}
				case pmetric.MetricTypeSummary:
					for p := 0; p < m.Summary().DataPoints().Len(); p++ {
						one, om := mk()
						m.Summary().DataPoints().At(p).CopyTo(om.SetEmptySummary().DataPoints().AppendEmpty())
						emit(one, m.Summary().DataPoints().At(p).Attributes())
					}
				}
			}
		}
	}
	return out
}

// containers counts the containers of an exported batch that hold no item at
// all (the batch processor must not emit hollow containers it created itself;
// recorded for information, not judged).
func itemsOf(data any) []Item {
	switch d := data.(type) {
	case ptrace.Traces:
		return tracesItems(d)
	case plog.Logs:
		return logsItems(d)
	case pmetric.Metrics:
		return metricsItems(d)
	}
	return nil
}

func countOf(data any) int {
	switch d := data.(type) {
	case ptrace.Traces:
		return d.SpanCount()
	case plog.Logs:
		return d.LogRecordCount()
	case pmetric.Metrics:
		return d.DataPointCount()
	}
	return 0
}

func build(sig, c string, sh Shape) (any, []Item) {
	switch sig {
	case "logs":
		return buildLogs(c, sh)
	case "metrics":
		return buildMetrics(c, sh)
	default:
		return buildTraces(c, sh)
	}
}
