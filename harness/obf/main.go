// Conformance harness for property C17 (obfuscation processor).
//
// Reads a plan (processor instances, each with a mode, its key pools and a list of cases: abstract
// attribute trees enumerated by TLC from spec/obf/Obfuscation.tla, or seeds of random trees),
// concretises every case into pdata for the instance's signal, runs the REAL processor created
// through its public factory with a recording next consumer, and writes an NDJSON trace
// (Begin / Process events) that spec/obf/ObfObs.tla judges.  No judgement is made here.
package main

import (
	"bufio"
	"context"
	"encoding/json"
	"flag"
	"fmt"
	"os"
	"runtime/debug"

	obf "github.com/open-telemetry/otel-arrow/collector/processor/obfuscationprocessor"
	"go.opentelemetry.io/collector/component"
	"go.opentelemetry.io/collector/consumer"
	"go.opentelemetry.io/collector/pdata/plog"
	"go.opentelemetry.io/collector/pdata/pmetric"
	"go.opentelemetry.io/collector/pdata/ptrace"
	"go.opentelemetry.io/collector/processor"
	mnoop "go.opentelemetry.io/otel/metric/noop"
	tnoop "go.opentelemetry.io/otel/trace/noop"
	"go.uber.org/zap"
)

// ---------------------------------------------------------------- plan

type AbsVal struct {
	T string          `json:"t"`
	S string          `json:"s,omitempty"`
	E json.RawMessage `json:"e,omitempty"` // slice: []AbsVal, map: []AbsAttr
}

type AbsAttr struct {
	K string `json:"k"` // "listed" | "unlisted"
	V AbsVal `json:"v"`
}

type Case struct {
	ID    string    `json:"id"`
	Attrs []AbsAttr `json:"attrs,omitempty"` // a TLC case: one attribute tree placed at every site
	Rand  int64     `json:"rand,omitempty"`  // a seeded case: random document, random tree per site
	Bulk  int       `json:"bulk,omitempty"`  // a bulk case: this many records, each with distinct strings numbered from Base
	Base  int       `json:"base,omitempty"`
	CSeed int64     `json:"cseed"`           // seed of the concretisation of the abstract strings
}

type Instance struct {
	Inst     int      `json:"inst"`
	Signal   string   `json:"signal"` // traces | logs | metrics
	Mode     string   `json:"mode"`   // all | list
	Listed   []string `json:"listed"`
	Unlisted []string `json:"unlisted"`
	ISeed    int64    `json:"iseed"` // seed of the instance's string pool (strings recurring across calls)
	Cases    []Case   `json:"cases"`
}

type Plan struct {
	Instances []Instance `json:"instances"`
}

// ---------------------------------------------------------------- trace

type Event struct {
	Ev      string   `json:"ev"`
	Tr      int      `json:"tr"`  // processor instance number
	Seq     int      `json:"seq"` // position of the event in the trace
	Signal  string   `json:"signal"`
	Mode    string   `json:"mode"`
	Listed  []string `json:"listed"`  // Begin: the configured keys, tagged
	Case    string   `json:"case"`    // Process: id of the case
	Outcome string   `json:"outcome"` // Process: ok | panic | error | nooutput | multi
	Msg     string   `json:"msg"`
	In      *Node    `json:"in"`
	Out     *Node    `json:"out"`
}

var (
	seq int
	w   *bufio.Writer
)

func emit(e *Event) {
	seq++
	e.Seq = seq
	if e.Listed == nil {
		e.Listed = []string{}
	}
	if e.In == nil {
		e.In = emptyNode()
	}
	if e.Out == nil {
		e.Out = emptyNode()
	}
	b, err := json.Marshal(e)
	if err != nil {
		panic(err)
	}
	w.Write(b)
	w.WriteByte('\n')
}

// ---------------------------------------------------------------- the real processor

func settings(f processor.Factory) processor.Settings {
	return processor.Settings{
		ID: component.NewID(f.Type()),
		TelemetrySettings: component.TelemetrySettings{
			Logger:         zap.NewNop(),
			TracerProvider: tnoop.NewTracerProvider(),
			MeterProvider:  mnoop.NewMeterProvider(),
		},
		BuildInfo: component.NewDefaultBuildInfo(),
	}
}

func config(f processor.Factory, in *Instance) *obf.Config {
	cfg := f.CreateDefaultConfig().(*obf.Config)
	if in.Mode == "all" {
		cfg.EncryptAll = true
		cfg.EncryptAttributes = nil
	} else {
		// encrypt_attributes given: the list wins.  Half of the instances leave encrypt_all at its
		// default (true), as a configuration file that only sets the list does; the other half
		// switches it off explicitly.
		if in.Inst%2 == 0 || len(in.Listed) == 0 {
			cfg.EncryptAll = false
		}
		cfg.EncryptAttributes = append([]string{}, in.Listed...)
	}
	return cfg
}

// call runs one Consume call; a panic becomes an outcome, never a crash of the harness.
func call(fn func() error) (outcome, msg string) {
	defer func() {
		if r := recover(); r != nil {
			outcome, msg = "panic", fmt.Sprintf("%v\n%s", r, debug.Stack())
			if len(msg) > 1500 {
				msg = msg[:1500]
			}
		}
	}()
	if err := fn(); err != nil {
		return "error", err.Error()
	}
	return "ok", ""
}

func runInstance(in *Instance) error {
	ctx := context.Background()
	f := obf.NewFactory()
	cfg := config(f, in)
	var outs []*Node // what the next consumer saw during the current call
	var consume func(c *Case, g *gen) (*Node, func() error)
	var shutdown func(context.Context) error

	switch in.Signal {
	case "traces":
		next, _ := consumer.NewTraces(func(_ context.Context, td ptrace.Traces) error {
			outs = append(outs, dumpTraces(td))
			return nil
		})
		p, err := f.CreateTraces(ctx, settings(f), cfg, next)
		if err != nil {
			return err
		}
		if err := p.Start(ctx, nil); err != nil {
			return err
		}
		shutdown = p.Shutdown
		consume = func(c *Case, g *gen) (*Node, func() error) {
			td := g.traces(c)
			cp := ptrace.NewTraces()
			td.CopyTo(cp)
			return dumpTraces(cp), func() error { return p.ConsumeTraces(ctx, td) }
		}
	case "logs":
		next, _ := consumer.NewLogs(func(_ context.Context, ld plog.Logs) error {
			outs = append(outs, dumpLogs(ld))
			return nil
		})
		p, err := f.CreateLogs(ctx, settings(f), cfg, next)
		if err != nil {
			return err
		}
		if err := p.Start(ctx, nil); err != nil {
			return err
		}
		shutdown = p.Shutdown
		consume = func(c *Case, g *gen) (*Node, func() error) {
			ld := g.logs(c)
			cp := plog.NewLogs()
			ld.CopyTo(cp)
			return dumpLogs(cp), func() error { return p.ConsumeLogs(ctx, ld) }
		}
	case "metrics":
		next, _ := consumer.NewMetrics(func(_ context.Context, md pmetric.Metrics) error {
			outs = append(outs, dumpMetrics(md))
			return nil
		})
		p, err := f.CreateMetrics(ctx, settings(f), cfg, next)
		if err != nil {
			return err
		}
		if err := p.Start(ctx, nil); err != nil {
			return err
		}
		shutdown = p.Shutdown
		consume = func(c *Case, g *gen) (*Node, func() error) {
			md := g.metrics(c)
			cp := pmetric.NewMetrics()
			md.CopyTo(cp)
			return dumpMetrics(cp), func() error { return p.ConsumeMetrics(ctx, md) }
		}
	default:
		return fmt.Errorf("unknown signal %q", in.Signal)
	}

	listed := make([]string, 0, len(in.Listed))
	if in.Mode == "list" {
		for _, k := range in.Listed {
			listed = append(listed, tagStr(k))
		}
	}
	emit(&Event{Ev: "Begin", Tr: in.Inst, Signal: in.Signal, Mode: in.Mode, Listed: listed})
	for i := range in.Cases {
		c := &in.Cases[i]
		g := newGen(in, c)
		outs = outs[:0]
		var before *Node
		var fn func() error
		outcome, msg := call(func() error { // building the input must not take the harness down either
			before, fn = consume(c, g)
			return nil
		})
		if outcome != "ok" {
			return fmt.Errorf("case %s: cannot build input: %s", c.ID, msg)
		}
		outcome, msg = call(fn)
		ev := &Event{Ev: "Process", Tr: in.Inst, Signal: in.Signal, Mode: in.Mode, Case: c.ID, Outcome: outcome, Msg: msg, In: before}
		if outcome == "ok" {
			switch len(outs) {
			case 0:
				ev.Outcome = "nooutput"
			case 1:
				ev.Out = outs[0]
			default:
				ev.Outcome = "multi"
				ev.Out = outs[0]
			}
		}
		emit(ev)
	}
	_, _ = call(func() error { return shutdown(ctx) })
	return nil
}

func main() {
	planPath := flag.String("plan", "", "plan JSON")
	outPath := flag.String("out", "", "NDJSON trace to write")
	flag.Parse()
	raw, err := os.ReadFile(*planPath)
	if err != nil {
		fmt.Fprintln(os.Stderr, err)
		os.Exit(2)
	}
	var plan Plan
	if err := json.Unmarshal(raw, &plan); err != nil {
		fmt.Fprintln(os.Stderr, "plan:", err)
		os.Exit(2)
	}
	fh, err := os.Create(*outPath)
	if err != nil {
		fmt.Fprintln(os.Stderr, err)
		os.Exit(2)
	}
	w = bufio.NewWriterSize(fh, 1<<20)
	for i := range plan.Instances {
		if err := runInstance(&plan.Instances[i]); err != nil {
			w.Flush()
			fmt.Fprintln(os.Stderr, "instance", plan.Instances[i].Inst, err)
			os.Exit(2)
		}
	}
	if err := w.Flush(); err != nil {
		fmt.Fprintln(os.Stderr, err)
		os.Exit(2)
	}
	fh.Close()
	fmt.Printf("events=%d instances=%d\n", seq, len(plan.Instances))
}
