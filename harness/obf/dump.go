package main

// Dumb, total dump of pdata into a generic tree.  No normalisation, no judgement.
//
//   Node  {ty, f: [{n, v: Value}], a: [Entry], c: [Node]}     a container (resource, scope, span, ...)
//   Entry {key: "s:<hex>", kn: byte length, v: Value}         one attribute, in map order
//   Value {k, v, n}      k = s|x|i|d|b|u|id : leaf, v = tagged string, n = byte length (s, x)
//         {k, e}         k = L : e = [Value]        k = M : e = [Entry]
//   tagged strings: "s:<hex of the bytes>", "x:<hex>" (bytes), "i:<decimal>", "d:<hex of the IEEE bits>",
//   "b:true|false", "u:" (empty value), "id:<hex>" (trace / span ids)

import (
	"encoding/hex"
	"math"
	"strconv"

	"go.opentelemetry.io/collector/pdata/pcommon"
	"go.opentelemetry.io/collector/pdata/plog"
	"go.opentelemetry.io/collector/pdata/pmetric"
	"go.opentelemetry.io/collector/pdata/ptrace"
)

// Value is a *Leaf or a *Cont.
type Value = any

type Leaf struct {
	K string `json:"k"`
	V string `json:"v"`
	N int    `json:"n"`
}

type Cont struct {
	K string `json:"k"`
	E []any  `json:"e"`
}

type Entry struct {
	Key string `json:"key"`
	Kn  int    `json:"kn"`
	V   Value  `json:"v"`
}

type Field struct {
	N string `json:"n"`
	V Value  `json:"v"`
}

type Node struct {
	Ty string  `json:"ty"`
	F  []Field `json:"f"`
	A  []any   `json:"a"`
	C  []*Node `json:"c"`
}

func emptyNode() *Node     { return &Node{Ty: "none", F: []Field{}, A: []any{}, C: []*Node{}} }
func node(ty string) *Node { return &Node{Ty: ty, F: []Field{}, A: []any{}, C: []*Node{}} }

func tagStr(s string) string { return "s:" + hex.EncodeToString([]byte(s)) }

func leaf(k, v string, n int) Value { return &Leaf{K: k, V: v, N: n} }
func vStr(s string) Value           { return leaf("s", tagStr(s), len(s)) }
func vBytes(b []byte) Value         { return leaf("x", "x:"+hex.EncodeToString(b), len(b)) }
func vInt(i int64) Value            { return leaf("i", "i:"+strconv.FormatInt(i, 10), 0) }
func vUint(i uint64) Value          { return leaf("i", "i:"+strconv.FormatUint(i, 10), 0) }
func vDouble(d float64) Value {
	return leaf("d", "d:"+strconv.FormatUint(math.Float64bits(d), 16), 0)
}
func vBool(b bool) Value  { return leaf("b", "b:"+strconv.FormatBool(b), 0) }
func vID(b []byte) Value  { return leaf("id", "id:"+hex.EncodeToString(b), 0) }
func vList(e []any) Value { return &Cont{K: "L", E: e} }
func vMap(e []any) Value  { return &Cont{K: "M", E: e} }

func dumpValue(v pcommon.Value) Value {
	switch v.Type() {
	case pcommon.ValueTypeStr:
		return vStr(v.Str())
	case pcommon.ValueTypeBytes:
		return vBytes(v.Bytes().AsRaw())
	case pcommon.ValueTypeInt:
		return vInt(v.Int())
	case pcommon.ValueTypeDouble:
		return vDouble(v.Double())
	case pcommon.ValueTypeBool:
		return vBool(v.Bool())
	case pcommon.ValueTypeSlice:
		s := v.Slice()
		e := make([]any, 0, s.Len())
		for i := 0; i < s.Len(); i++ {
			e = append(e, dumpValue(s.At(i)))
		}
		return vList(e)
	case pcommon.ValueTypeMap:
		return vMap(dumpMap(v.Map()))
	default:
		return leaf("u", "u:", 0)
	}
}

func dumpMap(m pcommon.Map) []any {
	e := make([]any, 0, m.Len())
	m.Range(func(k string, v pcommon.Value) bool {
		e = append(e, &Entry{Key: tagStr(k), Kn: len(k), V: dumpValue(v)})
		return true
	})
	return e
}

func (n *Node) f(name string, v Value) { n.F = append(n.F, Field{N: name, V: v}) }

func dumpResource(n *Node, r pcommon.Resource, schema string) {
	n.f("schema_url", vStr(schema))
	n.f("resource.dropped", vUint(uint64(r.DroppedAttributesCount())))
	n.A = dumpMap(r.Attributes())
}

func dumpScope(n *Node, s pcommon.InstrumentationScope, schema string) {
	n.f("schema_url", vStr(schema))
	n.f("scope.name", vStr(s.Name()))
	n.f("scope.version", vStr(s.Version()))
	n.f("scope.dropped", vUint(uint64(s.DroppedAttributesCount())))
	n.A = dumpMap(s.Attributes())
}

// ---------------------------------------------------------------- traces

func dumpTraces(td ptrace.Traces) *Node {
	root := node("Traces")
	for i := 0; i < td.ResourceSpans().Len(); i++ {
		rs := td.ResourceSpans().At(i)
		rn := node("ResourceSpans")
		dumpResource(rn, rs.Resource(), rs.SchemaUrl())
		for j := 0; j < rs.ScopeSpans().Len(); j++ {
			ss := rs.ScopeSpans().At(j)
			sn := node("ScopeSpans")
			dumpScope(sn, ss.Scope(), ss.SchemaUrl())
			for k := 0; k < ss.Spans().Len(); k++ {
				sn.C = append(sn.C, dumpSpan(ss.Spans().At(k)))
			}
			rn.C = append(rn.C, sn)
		}
		root.C = append(root.C, rn)
	}
	return root
}

func dumpSpan(s ptrace.Span) *Node {
	n := node("Span")
	tid, sid, pid := s.TraceID(), s.SpanID(), s.ParentSpanID()
	n.f("trace_id", vID(tid[:]))
	n.f("span_id", vID(sid[:]))
	n.f("parent_span_id", vID(pid[:]))
	n.f("trace_state", vStr(s.TraceState().AsRaw()))
	n.f("span.name", vStr(s.Name()))
	n.f("kind", vInt(int64(s.Kind())))
	n.f("start", vUint(uint64(s.StartTimestamp())))
	n.f("end", vUint(uint64(s.EndTimestamp())))
	n.f("flags", vUint(uint64(s.Flags())))
	n.f("dropped_attributes", vUint(uint64(s.DroppedAttributesCount())))
	n.f("dropped_events", vUint(uint64(s.DroppedEventsCount())))
	n.f("dropped_links", vUint(uint64(s.DroppedLinksCount())))
	n.f("status.code", vInt(int64(s.Status().Code())))
	n.f("status.message", vStr(s.Status().Message()))
	n.A = dumpMap(s.Attributes())
	for i := 0; i < s.Events().Len(); i++ {
		e := s.Events().At(i)
		en := node("Event")
		en.f("time", vUint(uint64(e.Timestamp())))
		en.f("event.name", vStr(e.Name()))
		en.f("dropped_attributes", vUint(uint64(e.DroppedAttributesCount())))
		en.A = dumpMap(e.Attributes())
		n.C = append(n.C, en)
	}
	for i := 0; i < s.Links().Len(); i++ {
		l := s.Links().At(i)
		ln := node("Link")
		ltid, lsid := l.TraceID(), l.SpanID()
		ln.f("trace_id", vID(ltid[:]))
		ln.f("span_id", vID(lsid[:]))
		ln.f("trace_state", vStr(l.TraceState().AsRaw()))
		ln.f("flags", vUint(uint64(l.Flags())))
		ln.f("dropped_attributes", vUint(uint64(l.DroppedAttributesCount())))
		ln.A = dumpMap(l.Attributes())
		n.C = append(n.C, ln)
	}
	return n
}

// ---------------------------------------------------------------- logs

func dumpLogs(ld plog.Logs) *Node {
	root := node("Logs")
	for i := 0; i < ld.ResourceLogs().Len(); i++ {
		rl := ld.ResourceLogs().At(i)
		rn := node("ResourceLogs")
		dumpResource(rn, rl.Resource(), rl.SchemaUrl())
		for j := 0; j < rl.ScopeLogs().Len(); j++ {
			sl := rl.ScopeLogs().At(j)
			sn := node("ScopeLogs")
			dumpScope(sn, sl.Scope(), sl.SchemaUrl())
			for k := 0; k < sl.LogRecords().Len(); k++ {
				r := sl.LogRecords().At(k)
				n := node("LogRecord")
				tid, sid := r.TraceID(), r.SpanID()
				n.f("time", vUint(uint64(r.Timestamp())))
				n.f("observed_time", vUint(uint64(r.ObservedTimestamp())))
				n.f("severity_number", vInt(int64(r.SeverityNumber())))
				n.f("severity_text", vStr(r.SeverityText()))
				n.f("event_name", vStr(r.EventName()))
				n.f("body", dumpValue(r.Body()))
				n.f("flags", vUint(uint64(r.Flags())))
				n.f("dropped_attributes", vUint(uint64(r.DroppedAttributesCount())))
				n.f("trace_id", vID(tid[:]))
				n.f("span_id", vID(sid[:]))
				n.A = dumpMap(r.Attributes())
				sn.C = append(sn.C, n)
			}
			rn.C = append(rn.C, sn)
		}
		root.C = append(root.C, rn)
	}
	return root
}

// ---------------------------------------------------------------- metrics

func dumpMetrics(md pmetric.Metrics) *Node {
	root := node("Metrics")
	for i := 0; i < md.ResourceMetrics().Len(); i++ {
		rm := md.ResourceMetrics().At(i)
		rn := node("ResourceMetrics")
		dumpResource(rn, rm.Resource(), rm.SchemaUrl())
		for j := 0; j < rm.ScopeMetrics().Len(); j++ {
			sm := rm.ScopeMetrics().At(j)
			sn := node("ScopeMetrics")
			dumpScope(sn, sm.Scope(), sm.SchemaUrl())
			for k := 0; k < sm.Metrics().Len(); k++ {
				sn.C = append(sn.C, dumpMetric(sm.Metrics().At(k)))
			}
			rn.C = append(rn.C, sn)
		}
		root.C = append(root.C, rn)
	}
	return root
}

func dumpExemplars(n *Node, es pmetric.ExemplarSlice) {
	l := make([]any, 0, es.Len())
	for i := 0; i < es.Len(); i++ {
		e := es.At(i)
		tid, sid := e.TraceID(), e.SpanID()
		var val Value
		switch e.ValueType() {
		case pmetric.ExemplarValueTypeInt:
			val = vInt(e.IntValue())
		case pmetric.ExemplarValueTypeDouble:
			val = vDouble(e.DoubleValue())
		default:
			val = leaf("u", "u:", 0)
		}
		l = append(l, vList([]any{vUint(uint64(e.Timestamp())), val, vID(tid[:]), vID(sid[:]), vMap(dumpMap(e.FilteredAttributes()))}))
	}
	n.f("exemplars", vList(l))
}

func uints(s pcommon.UInt64Slice) Value {
	l := make([]any, 0, s.Len())
	for i := 0; i < s.Len(); i++ {
		l = append(l, vUint(s.At(i)))
	}
	return vList(l)
}

func floats(s pcommon.Float64Slice) Value {
	l := make([]any, 0, s.Len())
	for i := 0; i < s.Len(); i++ {
		l = append(l, vDouble(s.At(i)))
	}
	return vList(l)
}

func dumpNumberPoints(n *Node, dps pmetric.NumberDataPointSlice) {
	for i := 0; i < dps.Len(); i++ {
		dp := dps.At(i)
		p := node("NumberDataPoint")
		p.f("start", vUint(uint64(dp.StartTimestamp())))
		p.f("time", vUint(uint64(dp.Timestamp())))
		p.f("flags", vUint(uint64(dp.Flags())))
		switch dp.ValueType() {
		case pmetric.NumberDataPointValueTypeInt:
			p.f("value", vInt(dp.IntValue()))
		case pmetric.NumberDataPointValueTypeDouble:
			p.f("value", vDouble(dp.DoubleValue()))
		default:
			p.f("value", leaf("u", "u:", 0))
		}
		dumpExemplars(p, dp.Exemplars())
		p.A = dumpMap(dp.Attributes())
		n.C = append(n.C, p)
	}
}

func dumpMetric(m pmetric.Metric) *Node {
	n := node("Metric")
	n.f("metric.name", vStr(m.Name()))
	n.f("metric.description", vStr(m.Description()))
	n.f("metric.unit", vStr(m.Unit()))
	n.f("metric.metadata", vMap(dumpMap(m.Metadata())))
	n.f("type", vInt(int64(m.Type())))
	switch m.Type() {
	case pmetric.MetricTypeGauge:
		dumpNumberPoints(n, m.Gauge().DataPoints())
	case pmetric.MetricTypeSum:
		n.f("temporality", vInt(int64(m.Sum().AggregationTemporality())))
		n.f("monotonic", vBool(m.Sum().IsMonotonic()))
		dumpNumberPoints(n, m.Sum().DataPoints())
	case pmetric.MetricTypeHistogram:
		n.f("temporality", vInt(int64(m.Histogram().AggregationTemporality())))
		dps := m.Histogram().DataPoints()
		for i := 0; i < dps.Len(); i++ {
			dp := dps.At(i)
			p := node("HistogramDataPoint")
			p.f("start", vUint(uint64(dp.StartTimestamp())))
			p.f("time", vUint(uint64(dp.Timestamp())))
			p.f("flags", vUint(uint64(dp.Flags())))
			p.f("count", vUint(dp.Count()))
			p.f("has_sum", vBool(dp.HasSum()))
			p.f("sum", vDouble(dp.Sum()))
			p.f("has_min", vBool(dp.HasMin()))
			p.f("min", vDouble(dp.Min()))
			p.f("has_max", vBool(dp.HasMax()))
			p.f("max", vDouble(dp.Max()))
			p.f("bucket_counts", uints(dp.BucketCounts()))
			p.f("explicit_bounds", floats(dp.ExplicitBounds()))
			dumpExemplars(p, dp.Exemplars())
			p.A = dumpMap(dp.Attributes())
			n.C = append(n.C, p)
		}
	case pmetric.MetricTypeExponentialHistogram:
		n.f("temporality", vInt(int64(m.ExponentialHistogram().AggregationTemporality())))
		dps := m.ExponentialHistogram().DataPoints()
		for i := 0; i < dps.Len(); i++ {
			dp := dps.At(i)
			p := node("ExponentialHistogramDataPoint")
			p.f("start", vUint(uint64(dp.StartTimestamp())))
			p.f("time", vUint(uint64(dp.Timestamp())))
			p.f("flags", vUint(uint64(dp.Flags())))
			p.f("count", vUint(dp.Count()))
			p.f("has_sum", vBool(dp.HasSum()))
			p.f("sum", vDouble(dp.Sum()))
			p.f("has_min", vBool(dp.HasMin()))
			p.f("min", vDouble(dp.Min()))
			p.f("has_max", vBool(dp.HasMax()))
			p.f("max", vDouble(dp.Max()))
			p.f("scale", vInt(int64(dp.Scale())))
			p.f("zero_count", vUint(dp.ZeroCount()))
			p.f("zero_threshold", vDouble(dp.ZeroThreshold()))
			p.f("positive.offset", vInt(int64(dp.Positive().Offset())))
			p.f("positive.counts", uints(dp.Positive().BucketCounts()))
			p.f("negative.offset", vInt(int64(dp.Negative().Offset())))
			p.f("negative.counts", uints(dp.Negative().BucketCounts()))
			dumpExemplars(p, dp.Exemplars())
			p.A = dumpMap(dp.Attributes())
			n.C = append(n.C, p)
		}
	case pmetric.MetricTypeSummary:
		dps := m.Summary().DataPoints()
		for i := 0; i < dps.Len(); i++ {
			dp := dps.At(i)
			p := node("SummaryDataPoint")
			p.f("start", vUint(uint64(dp.StartTimestamp())))
			p.f("time", vUint(uint64(dp.Timestamp())))
			p.f("flags", vUint(uint64(dp.Flags())))
			p.f("count", vUint(dp.Count()))
			p.f("sum", vDouble(dp.Sum()))
			q := make([]any, 0, dp.QuantileValues().Len())
			for k := 0; k < dp.QuantileValues().Len(); k++ {
				qv := dp.QuantileValues().At(k)
				q = append(q, vList([]any{vDouble(qv.Quantile()), vDouble(qv.Value())}))
			}
			p.f("quantiles", vList(q))
			p.A = dumpMap(dp.Attributes())
			n.C = append(n.C, p)
		}
	}
	return n
}
