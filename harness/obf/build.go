package main

// Concretisation of the abstract cases into pdata, and the seeded random generator.
// Everything is a deterministic function of (instance plan, case plan), so a saved plan replays.

import (
	"fmt"
	"encoding/binary"
	"encoding/json"
	"math"
	"math/rand"
	"strings"

	"go.opentelemetry.io/collector/pdata/pcommon"
	"go.opentelemetry.io/collector/pdata/plog"
	"go.opentelemetry.io/collector/pdata/pmetric"
	"go.opentelemetry.io/collector/pdata/ptrace"
)

type gen struct {
	in   *Instance
	c    *Case
	rng  *rand.Rand
	strs map[string]string // abstract string class -> the concrete string of this case
	byts map[string][]byte
	pool []string // strings of the instance, recurring across its calls
	ord  uint64   // every container gets a distinct ordinal in a numeric field
}

const printable = "abcdefghijklmnopqrstuvwxyzABCDEFGHIJKLMNOPQRSTUVWXYZ0123456789 -_./:=@#"

var nonASCII = []rune("éèüßñçøåÆЖдяЩλΩπ日本語中文한글😀✓€£¥§¶")

func asciiStr(r *rand.Rand, n int) string {
	b := make([]byte, n)
	for i := range b {
		b[i] = printable[r.Intn(len(printable))]
	}
	return string(b)
}

func nonASCIIStr(r *rand.Rand, n int) string {
	var sb strings.Builder
	for i := 0; i < n; i++ {
		if r.Intn(4) == 0 {
			sb.WriteByte(printable[r.Intn(len(printable))])
		} else {
			sb.WriteRune(nonASCII[r.Intn(len(nonASCII))])
		}
	}
	s := sb.String()
	for _, c := range s { // at least one multi-byte rune
		if c > 127 {
			return s
		}
	}
	return s + "é"
}

func instancePool(iseed int64) []string {
	r := rand.New(rand.NewSource(iseed))
	p := []string{"", "a", "7", "ab", "abc", "12345", "-17", "3.14", "true", "hello", "hellp", "hello ", "Hello",
		"héllo", "日本語テキスト", "😀", "aaaaaaaa", "\x00", "a\x00b", "line1\nline2\t\"q\"", "user@example.com",
		"4111 1111 1111 1111", asciiStr(r, 257), asciiStr(r, 64), asciiStr(r, 63)}
	for i := 0; i < 4; i++ {
		p = append(p, asciiStr(r, 1+r.Intn(24)))
	}
	for i := 0; i < 3; i++ {
		p = append(p, nonASCIIStr(r, 1+r.Intn(8)))
	}
	return p
}

func newGen(in *Instance, c *Case) *gen {
	g := &gen{in: in, c: c, rng: rand.New(rand.NewSource(c.CSeed)), pool: instancePool(in.ISeed)}
	r := g.rng
	pick := func(ok func(string) bool, fresh func() string) string {
		if r.Intn(2) == 0 {
			var cand []string
			for _, s := range g.pool {
				if ok(s) {
					cand = append(cand, s)
				}
			}
			if len(cand) > 0 {
				return cand[r.Intn(len(cand))]
			}
		}
		return fresh()
	}
	isASCII := func(s string) bool {
		for i := 0; i < len(s); i++ {
			if s[i] > 126 || s[i] < 32 {
				return false
			}
		}
		return true
	}
	g.strs = map[string]string{
		"empty": "",
		"one":   string(printable[r.Intn(len(printable))]),
		"ascii": pick(func(s string) bool { return len(s) >= 2 && len(s) <= 64 && isASCII(s) },
			func() string { return asciiStr(r, 2+r.Intn(15)) }),
		"nonascii": pick(func(s string) bool { return !isASCII(s) && len(s) > 1 && !strings.ContainsRune(s, 0) },
			func() string { return nonASCIIStr(r, 1+r.Intn(6)) }),
		"rep": strings.Repeat(string(printable[r.Intn(len(printable))]), 2+r.Intn(8)),
	}
	raw := make([]byte, 1+r.Intn(9))
	r.Read(raw)
	raw[0] = 0xff // never valid UTF-8
	if len(raw) > 2 {
		raw[1] = 0
	}
	g.byts = map[string][]byte{
		"empty":    {},
		"one":      {byte(r.Intn(256))},
		"ascii":    []byte(g.strs["ascii"]), // same content as the string of that class
		"nonascii": raw,
		"rep":      []byte(g.strs["rep"]),
	}
	return g
}

func (g *gen) next() uint64 { g.ord++; return g.ord }

func (g *gen) id8() (b [8]byte) { binary.BigEndian.PutUint64(b[:], g.next()); return }
func (g *gen) id16() (b [16]byte) {
	binary.BigEndian.PutUint64(b[8:], g.next())
	b[0] = 0xab
	return
}

var someInts = []int64{0, 1, -1, 42, 12345, math.MaxInt64, math.MinInt64, 1 << 53}
var someDoubles = []float64{0, math.Copysign(0, -1), 1.5, -2.25, math.NaN(), math.Inf(1), math.MaxFloat64, 5e-324}

func (g *gen) key(cls string, i int) string {
	pool := g.in.Listed
	if cls != "listed" {
		pool = g.in.Unlisted
	}
	if len(pool) == 0 {
		return cls + "-" + string(rune('a'+i))
	}
	return pool[i%len(pool)]
}

// ---------------------------------------------------------------- abstract tree -> pdata

func (g *gen) fillAttrs(m pcommon.Map, attrs []AbsAttr) {
	for i, a := range attrs {
		g.fillValue(m.PutEmpty(g.key(a.K, i)), a.V)
	}
}

func (g *gen) fillValue(dst pcommon.Value, v AbsVal) {
	switch v.T {
	case "str":
		dst.SetStr(g.strs[v.S])
	case "bytes":
		dst.SetEmptyBytes().FromRaw(g.byts[v.S])
	case "int":
		dst.SetInt(someInts[g.rng.Intn(len(someInts))])
	case "double":
		dst.SetDouble(someDoubles[g.rng.Intn(len(someDoubles))])
	case "bool":
		dst.SetBool(g.rng.Intn(2) == 0)
	case "unset":
	case "slice":
		var es []AbsVal
		if len(v.E) > 0 {
			if err := json.Unmarshal(v.E, &es); err != nil {
				panic(err)
			}
		}
		s := dst.SetEmptySlice()
		for _, e := range es {
			g.fillValue(s.AppendEmpty(), e)
		}
	case "map":
		var es []AbsAttr
		if len(v.E) > 0 {
			if err := json.Unmarshal(v.E, &es); err != nil {
				panic(err)
			}
		}
		g.fillAttrs(dst.SetEmptyMap(), es)
	default:
		panic("unknown abstract value " + v.T)
	}
}

// ---------------------------------------------------------------- random trees

func (g *gen) randString(r *rand.Rand) string {
	if r.Intn(10) < 6 {
		return g.pool[r.Intn(len(g.pool))]
	}
	switch r.Intn(8) {
	case 0:
		return ""
	case 1:
		return string(printable[r.Intn(len(printable))])
	case 2:
		return asciiStr(r, 2+r.Intn(30))
	case 3:
		return asciiStr(r, 100+r.Intn(300))
	case 4:
		return nonASCIIStr(r, 1+r.Intn(10))
	case 5:
		return strings.Repeat(string(printable[r.Intn(len(printable))]), 1+r.Intn(12))
	case 6:
		return asciiStr(r, 1+r.Intn(6)) + "\x00\x01\x7f"
	default:
		return string(rune('0'+r.Intn(10))) + asciiStr(r, r.Intn(3))
	}
}

func (g *gen) randBytes(r *rand.Rand) []byte {
	switch r.Intn(4) {
	case 0:
		return []byte{}
	case 1:
		return []byte(g.pool[r.Intn(len(g.pool))])
	default:
		b := make([]byte, 1+r.Intn(20))
		r.Read(b)
		return b
	}
}

func (g *gen) randValue(r *rand.Rand, dst pcommon.Value, depth int) {
	k := r.Intn(100)
	if depth >= 3 && k >= 72 {
		k = r.Intn(72)
	}
	switch {
	case k < 35:
		dst.SetStr(g.randString(r))
	case k < 43:
		dst.SetEmptyBytes().FromRaw(g.randBytes(r))
	case k < 53:
		dst.SetInt(someInts[r.Intn(len(someInts))])
	case k < 60:
		dst.SetDouble(someDoubles[r.Intn(len(someDoubles))])
	case k < 67:
		dst.SetBool(r.Intn(2) == 0)
	case k < 72:
	case k < 86:
		s := dst.SetEmptySlice()
		for i, n := 0, r.Intn(4); i < n; i++ {
			g.randValue(r, s.AppendEmpty(), depth+1)
		}
	default:
		g.randAttrs(r, dst.SetEmptyMap(), depth+1, 4)
	}
}

func (g *gen) randAttrs(r *rand.Rand, m pcommon.Map, depth, max int) {
	keys := append(append([]string{}, g.in.Listed...), g.in.Unlisted...)
	r.Shuffle(len(keys), func(i, j int) { keys[i], keys[j] = keys[j], keys[i] })
	n := r.Intn(max + 1)
	if n > len(keys) {
		n = len(keys)
	}
	for i := 0; i < n; i++ {
		g.randValue(r, m.PutEmpty(keys[i]), depth)
	}
}

// ---------------------------------------------------------------- documents

// site fills one attribute map: the case's tree (TLC case) or a random tree (seeded case).
func (g *gen) site(r *rand.Rand, m pcommon.Map, primary bool) {
	if r != nil {
		g.randAttrs(r, m, 1, 6)
	} else if primary {
		g.fillAttrs(m, g.c.Attrs)
	}
}

func (g *gen) name(r *rand.Rand, cls string) string {
	if r != nil {
		return g.randString(r)
	}
	return g.strs[cls]
}

func (g *gen) count(r *rand.Rand, fixed int) int {
	if r != nil {
		return r.Intn(4)
	}
	return fixed
}

func (g *gen) rand() *rand.Rand {
	if g.c.Rand != 0 {
		return rand.New(rand.NewSource(g.c.Rand))
	}
	return nil
}

func (g *gen) resource(r *rand.Rand, res pcommon.Resource, i int) {
	g.site(r, res.Attributes(), i == 0)
	res.SetDroppedAttributesCount(uint32(g.next()))
}

func (g *gen) scope(r *rand.Rand, sc pcommon.InstrumentationScope, j int) {
	g.site(r, sc.Attributes(), j == 0)
	sc.SetName(g.name(r, "ascii"))
	sc.SetVersion(g.name(r, "one"))
	sc.SetDroppedAttributesCount(uint32(g.next()))
}

// bulkAttrs: distinct strings per record (under a configured key and under an unlisted one), so that one long-lived
// instance sees thousands of different strings - and sees early ones again later.
func (g *gen) bulkAttrs(m pcommon.Map, n int) {
	m.PutStr(g.key("listed", 0), fmt.Sprintf("session-%06d", n))
	m.PutStr(g.key("unlisted", 0), fmt.Sprintf("u%05d", n))
	l := m.PutEmptySlice(g.key("listed", 1))
	l.AppendEmpty().SetStr(fmt.Sprintf("item-%d", n))
	l.AppendEmpty().SetInt(int64(n))
}

func (g *gen) traces(c *Case) ptrace.Traces {
	r := g.rand()
	td := ptrace.NewTraces()
	if c.Bulk > 0 {
		ss := td.ResourceSpans().AppendEmpty().ScopeSpans().AppendEmpty()
		for k := 0; k < c.Bulk; k++ {
			sp := ss.Spans().AppendEmpty()
			sp.SetTraceID(g.id16())
			sp.SetSpanID(g.id8())
			sp.SetName("op")
			g.bulkAttrs(sp.Attributes(), c.Base+k)
		}
		return td
	}
	for i, nr := 0, g.count(r, 1); i < nr; i++ {
		rs := td.ResourceSpans().AppendEmpty()
		g.resource(r, rs.Resource(), i)
		if i%2 == 0 {
			rs.SetSchemaUrl("https://example.com/schema/1.0")
		}
		for j, ns := 0, g.count(r, 1); j < ns; j++ {
			ss := rs.ScopeSpans().AppendEmpty()
			g.scope(r, ss.Scope(), j)
			for k, nsp := 0, g.count(r, 2); k < nsp; k++ {
				sp := ss.Spans().AppendEmpty()
				sp.SetTraceID(g.id16())
				sp.SetSpanID(g.id8())
				if k > 0 {
					sp.SetParentSpanID(g.id8())
					sp.TraceState().FromRaw("vendor=opaque")
				}
				sp.SetName(g.name(r, []string{"rep", "nonascii"}[k%2]))
				sp.SetKind(ptrace.SpanKind(g.rng.Intn(6)))
				sp.SetStartTimestamp(pcommon.Timestamp(g.next()))
				sp.SetEndTimestamp(pcommon.Timestamp(g.next()))
				sp.SetFlags(uint32(g.rng.Intn(512)))
				sp.SetDroppedAttributesCount(uint32(g.rng.Intn(3)))
				sp.SetDroppedEventsCount(uint32(g.rng.Intn(3)))
				sp.SetDroppedLinksCount(uint32(g.rng.Intn(3)))
				sp.Status().SetCode(ptrace.StatusCode(g.rng.Intn(3)))
				sp.Status().SetMessage(g.name(r, []string{"ascii", "empty"}[k%2]))
				g.site(r, sp.Attributes(), k == 0)
				for e, ne := 0, g.count(r, 2*(1-k%2)); e < ne; e++ {
					ev := sp.Events().AppendEmpty()
					ev.SetTimestamp(pcommon.Timestamp(g.next()))
					ev.SetName(g.name(r, []string{"nonascii", "empty"}[e%2]))
					ev.SetDroppedAttributesCount(uint32(g.rng.Intn(3)))
					g.site(r, ev.Attributes(), e == 0)
				}
				for l, nl := 0, g.count(r, 2*(1-k%2)); l < nl; l++ {
					lk := sp.Links().AppendEmpty()
					lk.SetTraceID(g.id16())
					lk.SetSpanID(g.id8())
					lk.SetFlags(uint32(g.rng.Intn(512)))
					lk.SetDroppedAttributesCount(uint32(g.rng.Intn(3)))
					if l == 1 {
						lk.TraceState().FromRaw("a=b,c=d")
					}
					g.site(r, lk.Attributes(), l == 0)
				}
			}
		}
	}
	return td
}

func (g *gen) logs(c *Case) plog.Logs {
	r := g.rand()
	ld := plog.NewLogs()
	if c.Bulk > 0 {
		sl := ld.ResourceLogs().AppendEmpty().ScopeLogs().AppendEmpty()
		for k := 0; k < c.Bulk; k++ {
			lr := sl.LogRecords().AppendEmpty()
			lr.SetTimestamp(pcommon.Timestamp(g.next()))
			lr.Body().SetStr(fmt.Sprintf("body-%d", c.Base+k))
			g.bulkAttrs(lr.Attributes(), c.Base+k)
		}
		return ld
	}
	for i, nr := 0, g.count(r, 1); i < nr; i++ {
		rl := ld.ResourceLogs().AppendEmpty()
		g.resource(r, rl.Resource(), i)
		if i%2 == 0 {
			rl.SetSchemaUrl("https://example.com/schema/1.0")
		}
		for j, ns := 0, g.count(r, 1); j < ns; j++ {
			sl := rl.ScopeLogs().AppendEmpty()
			g.scope(r, sl.Scope(), j)
			if j%2 == 0 {
				sl.SetSchemaUrl("https://example.com/scope")
			}
			for k, nl := 0, g.count(r, 2); k < nl; k++ {
				lr := sl.LogRecords().AppendEmpty()
				lr.SetTimestamp(pcommon.Timestamp(g.next()))
				lr.SetObservedTimestamp(pcommon.Timestamp(g.next()))
				lr.SetSeverityNumber(plog.SeverityNumber(g.rng.Intn(25)))
				lr.SetSeverityText([]string{"INFO", "", "warn"}[g.rng.Intn(3)])
				lr.SetFlags(plog.LogRecordFlags(g.rng.Intn(2)))
				lr.SetDroppedAttributesCount(uint32(g.rng.Intn(3)))
				if k%2 == 0 {
					lr.SetTraceID(g.id16())
					lr.SetSpanID(g.id8())
					lr.SetEventName("evt")
				}
				if r != nil {
					g.randValue(r, lr.Body(), 1)
				} else if k == 0 {
					lr.Body().SetStr(g.strs["ascii"])
				} else {
					bm := lr.Body().SetEmptyMap()
					bm.PutStr(g.key("listed", 0), g.strs["nonascii"])
					bm.PutInt(g.key("unlisted", 1), 7)
				}
				g.site(r, lr.Attributes(), k == 0)
			}
		}
	}
	return ld
}

func (g *gen) exemplar(r *rand.Rand, es pmetric.ExemplarSlice) {
	ex := es.AppendEmpty()
	ex.SetTimestamp(pcommon.Timestamp(g.next()))
	if g.rng.Intn(2) == 0 {
		ex.SetIntValue(int64(g.rng.Intn(100)))
	} else {
		ex.SetDoubleValue(someDoubles[g.rng.Intn(len(someDoubles))])
	}
	ex.SetTraceID(g.id16())
	ex.SetSpanID(g.id8())
	if r != nil {
		g.randAttrs(r, ex.FilteredAttributes(), 2, 2)
	} else {
		ex.FilteredAttributes().PutStr(g.key("listed", 0), g.strs["ascii"])
	}
}

func (g *gen) metrics(c *Case) pmetric.Metrics {
	r := g.rand()
	md := pmetric.NewMetrics()
	for i, nr := 0, g.count(r, 1); i < nr; i++ {
		rm := md.ResourceMetrics().AppendEmpty()
		g.resource(r, rm.Resource(), i)
		if i%2 == 0 {
			rm.SetSchemaUrl("https://example.com/schema/1.0")
		}
		for j, ns := 0, g.count(r, 1); j < ns; j++ {
			sm := rm.ScopeMetrics().AppendEmpty()
			g.scope(r, sm.Scope(), j)
			nm := 5
			if r != nil {
				nm = r.Intn(7)
			}
			for k := 0; k < nm; k++ {
				m := sm.Metrics().AppendEmpty()
				m.SetName(g.name(r, "ascii"))
				m.SetDescription(g.name(r, "nonascii"))
				m.SetUnit([]string{"", "ms", "By"}[g.rng.Intn(3)])
				if k%3 == 1 {
					m.Metadata().PutStr(g.key("listed", 0), g.strs["ascii"])
				}
				ty := k % 5
				if r != nil {
					ty = r.Intn(6) // 5: a metric without data
				}
				ndp := g.count(r, 1)
				if r == nil && ty == 0 {
					ndp = 2
				}
				switch ty {
				case 0, 1:
					var dps pmetric.NumberDataPointSlice
					if ty == 0 {
						dps = m.SetEmptyGauge().DataPoints()
					} else {
						s := m.SetEmptySum()
						s.SetAggregationTemporality(pmetric.AggregationTemporality(1 + g.rng.Intn(2)))
						s.SetIsMonotonic(g.rng.Intn(2) == 0)
						dps = s.DataPoints()
					}
					for d := 0; d < ndp; d++ {
						dp := dps.AppendEmpty()
						dp.SetStartTimestamp(pcommon.Timestamp(g.next()))
						dp.SetTimestamp(pcommon.Timestamp(g.next()))
						dp.SetFlags(pmetric.DataPointFlags(g.rng.Intn(2)))
						if g.rng.Intn(2) == 0 {
							dp.SetIntValue(someInts[g.rng.Intn(len(someInts))])
						} else {
							dp.SetDoubleValue(someDoubles[g.rng.Intn(len(someDoubles))])
						}
						if d == 0 {
							g.exemplar(r, dp.Exemplars())
						}
						g.site(r, dp.Attributes(), d == 0)
					}
				case 2:
					h := m.SetEmptyHistogram()
					h.SetAggregationTemporality(pmetric.AggregationTemporality(1 + g.rng.Intn(2)))
					for d := 0; d < ndp; d++ {
						dp := h.DataPoints().AppendEmpty()
						dp.SetStartTimestamp(pcommon.Timestamp(g.next()))
						dp.SetTimestamp(pcommon.Timestamp(g.next()))
						dp.SetCount(uint64(g.rng.Intn(100)))
						if g.rng.Intn(2) == 0 {
							dp.SetSum(someDoubles[g.rng.Intn(len(someDoubles))])
							dp.SetMin(-1.5)
							dp.SetMax(99)
						}
						dp.BucketCounts().FromRaw([]uint64{1, 0, uint64(g.rng.Intn(9))})
						dp.ExplicitBounds().FromRaw([]float64{0.5, 10})
						g.exemplar(r, dp.Exemplars())
						g.site(r, dp.Attributes(), d == 0)
					}
				case 3:
					h := m.SetEmptyExponentialHistogram()
					h.SetAggregationTemporality(pmetric.AggregationTemporality(1 + g.rng.Intn(2)))
					for d := 0; d < ndp; d++ {
						dp := h.DataPoints().AppendEmpty()
						dp.SetStartTimestamp(pcommon.Timestamp(g.next()))
						dp.SetTimestamp(pcommon.Timestamp(g.next()))
						dp.SetCount(uint64(g.rng.Intn(100)))
						dp.SetScale(int32(g.rng.Intn(5) - 2))
						dp.SetZeroCount(uint64(g.rng.Intn(4)))
						dp.SetZeroThreshold(0.001)
						if g.rng.Intn(2) == 0 {
							dp.SetSum(3.5)
						}
						dp.Positive().SetOffset(int32(g.rng.Intn(5) - 2))
						dp.Positive().BucketCounts().FromRaw([]uint64{uint64(g.rng.Intn(9)), 2})
						dp.Negative().SetOffset(1)
						dp.Negative().BucketCounts().FromRaw([]uint64{0})
						g.site(r, dp.Attributes(), d == 0)
					}
				case 4:
					s := m.SetEmptySummary()
					for d := 0; d < ndp; d++ {
						dp := s.DataPoints().AppendEmpty()
						dp.SetStartTimestamp(pcommon.Timestamp(g.next()))
						dp.SetTimestamp(pcommon.Timestamp(g.next()))
						dp.SetCount(uint64(g.rng.Intn(100)))
						dp.SetSum(12.25)
						q := dp.QuantileValues().AppendEmpty()
						q.SetQuantile(0.5)
						q.SetValue(float64(g.rng.Intn(10)))
						g.site(r, dp.Attributes(), d == 0)
					}
				}
			}
		}
	}
	return md
}
