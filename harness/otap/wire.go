package otap

import (
	"bytes"
	"crypto/sha256"
	"encoding/hex"
	"fmt"

	"github.com/apache/arrow-go/v18/arrow"
	"github.com/apache/arrow-go/v18/arrow/array"
	"github.com/apache/arrow-go/v18/arrow/ipc"
	"github.com/apache/arrow-go/v18/arrow/memory"
)

// Wire is the independent observer of what a producer puts on the wire: per
// schema id the concatenation of the IPC bytes sent so far, re-decoded from
// scratch by arrow-go's own reader (never by the repository's consumer).
type Wire struct {
	streams map[string]*bytes.Buffer
	// Tabs: also render the id / parent-id view (wiretab.go) of small records
	Tabs bool
}

func NewWire() *Wire { return &Wire{streams: map[string]*bytes.Buffer{}} }

// PayloadView is what the Framing specification is told about one payload.
type PayloadView struct {
	Sid     string   `json:"sid"`
	Ptype   string   `json:"ptype"`
	Bytes   int      `json:"bytes"`
	Msgs    []string `json:"msgs"`    // IPC message kinds in this payload: schema / dict / batch / other
	Rows    int      `json:"rows"`    // rows of the last record batch decoded from this payload, -1 if none
	Schema  string   `json:"schema"`  // fingerprint of the Arrow schema of the sub-stream
	Indep   string   `json:"indep"`   // "ok" or the independent reader's error
	Records int      `json:"records"` // record batches in the sub-stream so far
	Dicts   [][]any  `json:"dicts"`   // [column path, index bit width, entries] as held by the independent reader after this payload
	tab     []any    // id / parent-id view of the payload's record (OtapWire.tla), nil if not rendered
}

func msgKinds(b []byte) []string {
	kinds := []string{}
	mr := ipc.NewMessageReader(bytes.NewReader(b))
	defer mr.Release()
	for i := 0; i < 100000; i++ {
		m, err := mr.Message()
		if err != nil {
			break
		}
		switch m.Type() {
		case ipc.MessageSchema:
			kinds = append(kinds, "schema")
		case ipc.MessageDictionaryBatch:
			kinds = append(kinds, "dict")
		case ipc.MessageRecordBatch:
			kinds = append(kinds, "batch")
		default:
			kinds = append(kinds, "other")
		}
	}
	return kinds
}

func dictWalk(path string, dt arrow.DataType, a arrow.Array, out map[string][2]int) {
	switch c := a.(type) {
	case *array.Dictionary:
		bits := 0
		if d, ok := dt.(*arrow.DictionaryType); ok {
			if fw, ok := d.IndexType.(arrow.FixedWidthDataType); ok {
				bits = fw.BitWidth()
			}
		}
		cur := out[path]
		if c.Dictionary().Len() >= cur[1] {
			out[path] = [2]int{bits, c.Dictionary().Len()}
		}
	case *array.Struct:
		st := dt.(*arrow.StructType)
		for i := 0; i < c.NumField(); i++ {
			dictWalk(path+"."+st.Field(i).Name, st.Field(i).Type, c.Field(i), out)
		}
	case *array.List:
		dictWalk(path+"[]", dt.(*arrow.ListType).Elem(), c.ListValues(), out)
	case *array.Map:
		mt := dt.(*arrow.MapType)
		dictWalk(path+".key", mt.KeyType(), c.Keys(), out)
		dictWalk(path+".item", mt.ItemType(), c.Items(), out)
	case *array.SparseUnion:
		ut := dt.(*arrow.SparseUnionType)
		for i := 0; i < c.NumFields(); i++ {
			dictWalk(path+"|"+ut.Fields()[i].Name, ut.Fields()[i].Type, c.Field(i), out)
		}
	case *array.DenseUnion:
		ut := dt.(*arrow.DenseUnionType)
		for i := 0; i < c.NumFields(); i++ {
			dictWalk(path+"|"+ut.Fields()[i].Name, ut.Fields()[i].Type, c.Field(i), out)
		}
	}
}

// Add appends a payload to its sub-stream and decodes the whole sub-stream
// with a fresh reader.
func (w *Wire) Add(sid, ptype string, rec []byte) (pv PayloadView) {
	pv = PayloadView{Sid: sid, Ptype: ptype, Bytes: len(rec), Msgs: msgKinds(rec), Rows: -1, Indep: "ok", Dicts: [][]any{}}
	buf := w.streams[sid]
	if buf == nil {
		buf = &bytes.Buffer{}
		w.streams[sid] = buf
	}
	buf.Write(rec)
	defer func() {
		if x := recover(); x != nil {
			pv.Indep = fmt.Sprintf("panic: %v", x)
		}
	}()
	r, err := ipc.NewReader(bytes.NewReader(buf.Bytes()), ipc.WithAllocator(memory.NewGoAllocator()), ipc.WithDictionaryDeltas(true))
	if err != nil {
		pv.Indep = "open: " + err.Error()
		return
	}
	defer r.Release()
	h := sha256.Sum256([]byte(r.Schema().String()))
	pv.Schema = hex.EncodeToString(h[:6])
	ds := map[string][2]int{}
	for r.Next() {
		rec := r.Record()
		pv.Records++
		pv.Rows = int(rec.NumRows())
		pv.tab = nil
		if w.Tabs && rec.NumRows() <= wireTabMaxRows {
			pv.tab = wireTab(ptype, rec)
		}
		ds = map[string][2]int{}
		for c := 0; c < int(rec.NumCols()); c++ {
			f := rec.Schema().Field(c)
			dictWalk(f.Name, f.Type, rec.Column(c), ds)
		}
	}
	if r.Err() != nil {
		pv.Indep = "read: " + r.Err().Error()
	}
	for k, v := range ds {
		pv.Dicts = append(pv.Dicts, []any{k, v[0], v[1]})
	}
	return
}
