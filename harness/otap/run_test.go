package otap

import (
	"bufio"
	"encoding/json"
	"os"
	"strconv"
	"testing"
)

// TestPlan runs the streams of $VERIF_PLAN (a JSON list) from index
// $VERIF_START and appends their events to $VERIF_TRACE_OUT.
func TestPlan(t *testing.T) {
	path, outp := os.Getenv("VERIF_PLAN"), os.Getenv("VERIF_TRACE_OUT")
	if path == "" || outp == "" {
		t.Skip("VERIF_PLAN / VERIF_TRACE_OUT not set")
	}
	raw, err := os.ReadFile(path)
	if err != nil {
		t.Fatal(err)
	}
	var plan []Stream
	if err := json.Unmarshal(raw, &plan); err != nil {
		t.Fatal(err)
	}
	start, _ := strconv.Atoi(os.Getenv("VERIF_START"))
	step, _ := strconv.Atoi(os.Getenv("VERIF_STEP"))
	if step <= 0 {
		step = 1
	}
	fh, err := os.OpenFile(outp, os.O_CREATE|os.O_WRONLY|os.O_APPEND, 0o644)
	if err != nil {
		t.Fatal(err)
	}
	defer fh.Close()
	em := &Emitter{W: bufio.NewWriterSize(fh, 1<<20)}
	if sp := os.Getenv("VERIF_STREAM_OUT"); sp != "" {
		sfh, err := os.OpenFile(sp, os.O_CREATE|os.O_WRONLY|os.O_APPEND, 0o644)
		if err != nil {
			t.Fatal(err)
		}
		defer sfh.Close()
		em.SW = bufio.NewWriterSize(sfh, 1<<20)
	}
	if wp := os.Getenv("VERIF_WIRE_OUT"); wp != "" {
		wfh, err := os.OpenFile(wp, os.O_CREATE|os.O_WRONLY|os.O_APPEND, 0o644)
		if err != nil {
			t.Fatal(err)
		}
		defer wfh.Close()
		em.WW = bufio.NewWriterSize(wfh, 1<<20)
	}
	for i := start; i < len(plan); i += step {
		RunStream(em, i+1, &plan[i])
		em.W.Flush()
		if em.WW != nil {
			em.WW.Flush()
		}
		if em.SW != nil {
			em.SW.Flush()
		}
	}
}
