//go:build !verif

package otap

import (
	"strconv"

	"github.com/open-telemetry/otel-arrow/pkg/otel/arrow_record"
)

const HaveProjection = false

func sidNum(s string) int {
	if n, err := strconv.Atoi(s); err == nil && n >= 0 {
		return n
	}
	return -1
}

func producerProjection(*arrow_record.Producer) []any         { return []any{} }
func consumerProjection(*arrow_record.Consumer) []any         { return []any{} }
func producerNext(*arrow_record.Producer) int                 { return 0 }
func consumerIDs(*arrow_record.Consumer) []string             { return nil }
func consumerOpenIDs(*arrow_record.Consumer) []string         { return nil }
func consumerStates(*arrow_record.Consumer) map[string]string { return map[string]string{} }
