// Package otap is the conformance harness of the OTAP producer/consumer
// specifications (spec/otap).  dump.go renders pdata as generic nodes for the
// TLA+ round-trip oracle.  The dumper is deliberately dumb and total: it
// reports every data-model field as found, applies no normalisation, and only
// classifies doubles (NaN / negative zero / number); every judgement about
// equivalence lives in RoundTrip.tla.
package otap

import (
	"encoding/hex"
	"fmt"
	"math"
	"strconv"

	"go.opentelemetry.io/collector/pdata/pcommon"
	"go.opentelemetry.io/collector/pdata/plog"
	"go.opentelemetry.io/collector/pdata/pmetric"
	"go.opentelemetry.io/collector/pdata/ptrace"
)

// Leaf / value: [tag, payload, class]; payload is a string for scalars, a list
// of values for "l", a list of [key, value] for "m".
type V = []any

// Node: f = ordered scalar fields, a = attributes (set semantics after
// normalisation), v = top-level any-values (log body), q = ordered sequences
// (bucket counts, bounds, quantiles), k = named bags of child nodes.
type Node struct {
	F []V     `json:"f"`
	A [][]any `json:"a"`
	V []V     `json:"v"`
	Q [][]V   `json:"q"`
	K [][]any `json:"k"`
}

func str(s string) string {
	for i := 0; i < len(s); i++ {
		if s[i] < 0x20 || s[i] > 0x7e || s[i] == '"' || s[i] == '\\' {
			return "#" + hex.EncodeToString([]byte(s))
		}
	}
	return "=" + s
}

func S(s string) V { return V{"s", str(s), ""} }
func I(i int64) V  { return V{"i", strconv.FormatInt(i, 10), ""} }
func U(u uint64) V { return V{"i", strconv.FormatUint(u, 10), ""} }
func B(b bool) V   { return V{"b", strconv.FormatBool(b), ""} }
func X(b []byte) V { return V{"x", hex.EncodeToString(b), strconv.Itoa(len(b))} }
func None() V      { return V{"u", "", ""} }
func D(f float64) V {
	class := "num"
	if math.IsNaN(f) {
		class = "nan"
	} else if f == 0 && math.Signbit(f) {
		class = "negzero"
	}
	return V{"d", fmt.Sprintf("%016x", math.Float64bits(f)), class}
}

func Val(v pcommon.Value) V {
	switch v.Type() {
	case pcommon.ValueTypeStr:
		return S(v.Str())
	case pcommon.ValueTypeInt:
		return I(v.Int())
	case pcommon.ValueTypeDouble:
		return D(v.Double())
	case pcommon.ValueTypeBool:
		return B(v.Bool())
	case pcommon.ValueTypeBytes:
		return X(v.Bytes().AsRaw())
	case pcommon.ValueTypeSlice:
		l := make([]any, 0, v.Slice().Len())
		for i := 0; i < v.Slice().Len(); i++ {
			l = append(l, Val(v.Slice().At(i)))
		}
		return V{"l", l, ""}
	case pcommon.ValueTypeMap:
		return V{"m", Attrs(v.Map()), ""}
	}
	return None()
}

func Attrs(m pcommon.Map) [][]any {
	out := make([][]any, 0, m.Len())
	m.Range(func(k string, v pcommon.Value) bool {
		out = append(out, []any{str(k), Val(v)})
		return true
	})
	return out
}

func node() *Node { return &Node{F: []V{}, A: [][]any{}, V: []V{}, Q: [][]V{}, K: [][]any{}} }

func (n *Node) kids(name string, ns []*Node) {
	l := make([]any, 0, len(ns))
	for _, x := range ns {
		l = append(l, x)
	}
	n.K = append(n.K, []any{name, l})
}

func resNode(r pcommon.Resource, url string) *Node {
	n := node()
	n.F = []V{U(uint64(r.DroppedAttributesCount())), S(url)}
	n.A = Attrs(r.Attributes())
	return n
}

func scopeNode(s pcommon.InstrumentationScope, url string) *Node {
	n := node()
	n.F = []V{S(s.Name()), S(s.Version()), U(uint64(s.DroppedAttributesCount())), S(url)}
	n.A = Attrs(s.Attributes())
	return n
}

func DumpTraces(td ptrace.Traces) []*Node {
	out := []*Node{}
	for i := 0; i < td.ResourceSpans().Len(); i++ {
		rs := td.ResourceSpans().At(i)
		for j := 0; j < rs.ScopeSpans().Len(); j++ {
			ss := rs.ScopeSpans().At(j)
			for k := 0; k < ss.Spans().Len(); k++ {
				s := ss.Spans().At(k)
				n := node()
				tid, sid, pid := s.TraceID(), s.SpanID(), s.ParentSpanID()
				n.F = []V{X(tid[:]), X(sid[:]), X(pid[:]), S(s.TraceState().AsRaw()), S(s.Name()), I(int64(s.Kind())),
					U(uint64(s.StartTimestamp())), U(uint64(s.EndTimestamp())), U(uint64(s.DroppedAttributesCount())),
					U(uint64(s.DroppedEventsCount())), U(uint64(s.DroppedLinksCount())), I(int64(s.Status().Code())),
					S(s.Status().Message()), U(uint64(s.Flags()))}
				n.A = Attrs(s.Attributes())
				var evs, lks []*Node
				for e := 0; e < s.Events().Len(); e++ {
					ev := s.Events().At(e)
					en := node()
					en.F = []V{S(ev.Name()), U(uint64(ev.Timestamp())), U(uint64(ev.DroppedAttributesCount()))}
					en.A = Attrs(ev.Attributes())
					evs = append(evs, en)
				}
				for l := 0; l < s.Links().Len(); l++ {
					lk := s.Links().At(l)
					ln := node()
					lt, ls := lk.TraceID(), lk.SpanID()
					ln.F = []V{X(lt[:]), X(ls[:]), S(lk.TraceState().AsRaw()), U(uint64(lk.DroppedAttributesCount())), U(uint64(lk.Flags()))}
					ln.A = Attrs(lk.Attributes())
					lks = append(lks, ln)
				}
				n.kids("res", []*Node{resNode(rs.Resource(), rs.SchemaUrl())})
				n.kids("scope", []*Node{scopeNode(ss.Scope(), ss.SchemaUrl())})
				n.kids("events", evs)
				n.kids("links", lks)
				out = append(out, n)
			}
		}
	}
	return out
}

func DumpLogs(ld plog.Logs) []*Node {
	out := []*Node{}
	for i := 0; i < ld.ResourceLogs().Len(); i++ {
		rl := ld.ResourceLogs().At(i)
		for j := 0; j < rl.ScopeLogs().Len(); j++ {
			sl := rl.ScopeLogs().At(j)
			for k := 0; k < sl.LogRecords().Len(); k++ {
				l := sl.LogRecords().At(k)
				n := node()
				tid, sid := l.TraceID(), l.SpanID()
				n.F = []V{U(uint64(l.Timestamp())), U(uint64(l.ObservedTimestamp())), X(tid[:]), X(sid[:]),
					I(int64(l.SeverityNumber())), S(l.SeverityText()), U(uint64(l.DroppedAttributesCount())), U(uint64(l.Flags()))}
				n.A = Attrs(l.Attributes())
				n.V = []V{Val(l.Body())}
				n.kids("res", []*Node{resNode(rl.Resource(), rl.SchemaUrl())})
				n.kids("scope", []*Node{scopeNode(sl.Scope(), sl.SchemaUrl())})
				out = append(out, n)
			}
		}
	}
	return out
}

func exemplarNodes(es pmetric.ExemplarSlice) []*Node {
	var out []*Node
	for i := 0; i < es.Len(); i++ {
		e := es.At(i)
		n := node()
		v := None()
		switch e.ValueType() {
		case pmetric.ExemplarValueTypeInt:
			v = I(e.IntValue())
		case pmetric.ExemplarValueTypeDouble:
			v = D(e.DoubleValue())
		}
		tid, sid := e.TraceID(), e.SpanID()
		n.F = []V{U(uint64(e.Timestamp())), v, X(tid[:]), X(sid[:])}
		n.A = Attrs(e.FilteredAttributes())
		out = append(out, n)
	}
	return out
}

func optD(has bool, f float64) V {
	if !has {
		return None()
	}
	return D(f)
}

func u64seq(s pcommon.UInt64Slice) []V {
	out := make([]V, 0, s.Len())
	for i := 0; i < s.Len(); i++ {
		out = append(out, U(s.At(i)))
	}
	return out
}

func f64seq(s pcommon.Float64Slice) []V {
	out := make([]V, 0, s.Len())
	for i := 0; i < s.Len(); i++ {
		out = append(out, D(s.At(i)))
	}
	return out
}

func DumpMetrics(md pmetric.Metrics) []*Node {
	out := []*Node{}
	for i := 0; i < md.ResourceMetrics().Len(); i++ {
		rm := md.ResourceMetrics().At(i)
		for j := 0; j < rm.ScopeMetrics().Len(); j++ {
			sm := rm.ScopeMetrics().At(j)
			for k := 0; k < sm.Metrics().Len(); k++ {
				m := sm.Metrics().At(k)
				n := node()
				n.F = []V{S(m.Name()), S(m.Description()), S(m.Unit()), I(int64(m.Type()))}
				n.A = Attrs(m.Metadata())
				var dps []*Node
				ndp := func(s pmetric.NumberDataPointSlice) {
					for x := 0; x < s.Len(); x++ {
						d := s.At(x)
						dn := node()
						v := None()
						switch d.ValueType() {
						case pmetric.NumberDataPointValueTypeInt:
							v = I(d.IntValue())
						case pmetric.NumberDataPointValueTypeDouble:
							v = D(d.DoubleValue())
						}
						dn.F = []V{U(uint64(d.StartTimestamp())), U(uint64(d.Timestamp())), v, U(uint64(d.Flags()))}
						dn.A = Attrs(d.Attributes())
						dn.kids("exemplars", exemplarNodes(d.Exemplars()))
						dps = append(dps, dn)
					}
				}
				switch m.Type() {
				case pmetric.MetricTypeGauge:
					ndp(m.Gauge().DataPoints())
				case pmetric.MetricTypeSum:
					n.F = append(n.F, I(int64(m.Sum().AggregationTemporality())), B(m.Sum().IsMonotonic()))
					ndp(m.Sum().DataPoints())
				case pmetric.MetricTypeHistogram:
					n.F = append(n.F, I(int64(m.Histogram().AggregationTemporality())))
					s := m.Histogram().DataPoints()
					for x := 0; x < s.Len(); x++ {
						d := s.At(x)
						dn := node()
						dn.F = []V{U(uint64(d.StartTimestamp())), U(uint64(d.Timestamp())), U(d.Count()),
							optD(d.HasSum(), d.Sum()), optD(d.HasMin(), d.Min()), optD(d.HasMax(), d.Max()), U(uint64(d.Flags()))}
						dn.A = Attrs(d.Attributes())
						dn.Q = [][]V{u64seq(d.BucketCounts()), f64seq(d.ExplicitBounds())}
						dn.kids("exemplars", exemplarNodes(d.Exemplars()))
						dps = append(dps, dn)
					}
				case pmetric.MetricTypeExponentialHistogram:
					n.F = append(n.F, I(int64(m.ExponentialHistogram().AggregationTemporality())))
					s := m.ExponentialHistogram().DataPoints()
					for x := 0; x < s.Len(); x++ {
						d := s.At(x)
						dn := node()
						dn.F = []V{U(uint64(d.StartTimestamp())), U(uint64(d.Timestamp())), U(d.Count()),
							optD(d.HasSum(), d.Sum()), optD(d.HasMin(), d.Min()), optD(d.HasMax(), d.Max()),
							I(int64(d.Scale())), U(d.ZeroCount()), I(int64(d.Positive().Offset())), I(int64(d.Negative().Offset())),
							U(uint64(d.Flags())), D(d.ZeroThreshold())}
						dn.A = Attrs(d.Attributes())
						dn.Q = [][]V{u64seq(d.Positive().BucketCounts()), u64seq(d.Negative().BucketCounts())}
						dn.kids("exemplars", exemplarNodes(d.Exemplars()))
						dps = append(dps, dn)
					}
				case pmetric.MetricTypeSummary:
					s := m.Summary().DataPoints()
					for x := 0; x < s.Len(); x++ {
						d := s.At(x)
						dn := node()
						dn.F = []V{U(uint64(d.StartTimestamp())), U(uint64(d.Timestamp())), U(d.Count()), D(d.Sum()), U(uint64(d.Flags()))}
						dn.A = Attrs(d.Attributes())
						var qs []V
						for y := 0; y < d.QuantileValues().Len(); y++ {
							q := d.QuantileValues().At(y)
							qs = append(qs, D(q.Quantile()), D(q.Value()))
						}
						if qs == nil {
							qs = []V{}
						}
						dn.Q = [][]V{qs}
						dps = append(dps, dn)
					}
				}
				n.kids("res", []*Node{resNode(rm.Resource(), rm.SchemaUrl())})
				n.kids("scope", []*Node{scopeNode(sm.Scope(), sm.SchemaUrl())})
				n.kids("points", dps)
				out = append(out, n)
			}
		}
	}
	return out
}
