package otap

import (
	"bufio"
	"bytes"
	"crypto/sha256"
	"encoding/hex"
	"encoding/json"
	"fmt"
	"os"
	"strconv"
	"sync"
	"testing"

	"github.com/open-telemetry/otel-arrow/pkg/otel/arrow_record"
	carrow "github.com/open-telemetry/otel-arrow/pkg/otel/common/arrow"
	"github.com/open-telemetry/otel-arrow/pkg/otel/common/schema/transform"
	logsarrow "github.com/open-telemetry/otel-arrow/pkg/otel/logs/arrow"
	metricsarrow "github.com/open-telemetry/otel-arrow/pkg/otel/metrics/arrow"
	tracesarrow "github.com/open-telemetry/otel-arrow/pkg/otel/traces/arrow"
)

// globalsFingerprint hashes the exported package-level state the encoders read.
func globalsFingerprint() string {
	h := sha256.New()
	fmt.Fprintf(h, "%v|%v|%v|", tracesarrow.TracesSchema, logsarrow.LogsSchema, metricsarrow.MetricsSchema)
	fmt.Fprintf(h, "%v|%v|", carrow.AttrsSchema16, carrow.AttrsSchema32)
	fmt.Fprintf(h, "%v|%v|", tracesarrow.EventSchema, tracesarrow.LinkSchema)
	fmt.Fprintf(h, "%v|%v|%v|%v|%v|", metricsarrow.DataPointSchema, metricsarrow.HistogramDataPointSchema,
		metricsarrow.EHistogramDataPointSchema, metricsarrow.SummaryDataPointSchema, metricsarrow.ExemplarSchema)
	fmt.Fprintf(h, "%v|%v|", transform.AllIndexTypes, transform.AllIndexMaxCard)
	return hex.EncodeToString(h.Sum(nil)[:8])
}

// TestConcurrent (C16): groups of $VERIF_GROUP streams of the plan are run alone, then all at
// once from different goroutines; every batch decoded concurrently is emitted next to what the
// same stream decoded alone (event Conc, judged by OtapObs with the RoundTrip oracle).
func TestConcurrent(t *testing.T) {
	path, outp := os.Getenv("VERIF_PLAN"), os.Getenv("VERIF_TRACE_OUT")
	if path == "" || outp == "" {
		t.Skip("VERIF_PLAN / VERIF_TRACE_OUT not set")
	}
	raw, err := os.ReadFile(path)
	if err != nil {
		t.Fatal(err)
	}
	var plan []Stream
	if err := json.Unmarshal(raw, &plan); err != nil {
		t.Fatal(err)
	}
	start, _ := strconv.Atoi(os.Getenv("VERIF_START"))
	step, _ := strconv.Atoi(os.Getenv("VERIF_STEP"))
	if step <= 0 {
		step = 1
	}
	group, _ := strconv.Atoi(os.Getenv("VERIF_GROUP"))
	if group <= 1 {
		group = 4
	}
	fh, err := os.OpenFile(outp, os.O_CREATE|os.O_WRONLY|os.O_APPEND, 0o644)
	if err != nil {
		t.Fatal(err)
	}
	defer fh.Close()
	em := &Emitter{W: bufio.NewWriterSize(fh, 1<<20)}
	ngroups := (len(plan) + group - 1) / group
	for g := start; g < ngroups; g += step {
		lo, hi := g*group, min((g+1)*group, len(plan))
		// every second group builds all its consumers from one shared option slice
		if g%2 == 1 {
			SharedConsumerOptions = []arrow_record.Option{arrow_record.WithMemoryLimit(70 << 20)}
		} else {
			SharedConsumerOptions = nil
		}
		fp0 := globalsFingerprint()
		alone := make([]*Capture, hi-lo)
		for i := lo; i < hi; i++ {
			alone[i-lo] = &Capture{}
			RunStreamCapture(&Emitter{W: bufio.NewWriter(&bytes.Buffer{})}, i+1, &plan[i], alone[i-lo])
		}
		conc := make([]*Capture, hi-lo)
		bufs := make([]*bytes.Buffer, hi-lo)
		var wg sync.WaitGroup
		gate := make(chan struct{})
		for i := lo; i < hi; i++ {
			conc[i-lo] = &Capture{}
			bufs[i-lo] = &bytes.Buffer{}
			wg.Add(1)
			go func(i int) {
				defer wg.Done()
				<-gate
				w := bufio.NewWriter(bufs[i-lo])
				RunStreamCapture(&Emitter{W: w}, i+1, &plan[i], conc[i-lo])
				w.Flush()
			}(i)
		}
		close(gate)
		wg.Wait()
		fp1 := globalsFingerprint()
		for i := lo; i < hi; i++ {
			a, c := alone[i-lo], conc[i-lo]
			em.Emit(i+1, "Begin", map[string]any{"x": plan[i].ID, "sig": plan[i].Signal, "a": -1, "b": 0, "flag": 1, "l": []any{}})
			n := max(len(a.Oc), len(c.Oc))
			for k := 0; k < n; k++ {
				ao, co := "missing", "missing"
				var an, cn []*Node = []*Node{}, []*Node{}
				if k < len(a.Oc) {
					ao, an = a.Oc[k], a.Out[k]
				}
				if k < len(c.Oc) {
					co, cn = c.Oc[k], c.Out[k]
				}
				ev := map[string]any{"k": k, "oc": co, "err": ao, "n": len(cn), "b": len(an), "flag": boolp(ao == co)}
				if len(an) <= 64 && len(cn) <= 64 {
					ev["in"], ev["out"] = an, cn
				} else {
					ev["a"] = 1 // too large for the oracle: only counts and outcomes are judged
				}
				em.Emit(i+1, "Conc", ev)
			}
			if fp0 != fp1 {
				em.Emit(i+1, "Conc", map[string]any{"k": -1, "oc": "globals", "flag": 1})
			}
			em.Emit(i+1, "End", map[string]any{"oc": "ok"})
		}
		em.W.Flush()
	}
}
