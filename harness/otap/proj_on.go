//go:build verif

package otap

import (
	"fmt"
	"hash/fnv"
	"strconv"

	"github.com/open-telemetry/otel-arrow/pkg/otel/arrow_record"
)

// HaveProjection: the repository was built with its `verif` tag, the stream maps can be read.
const HaveProjection = true

func shortKey(k string) string {
	h := fnv.New64a()
	h.Write([]byte(k))
	return fmt.Sprintf("%012x", h.Sum64()&0xffffffffffff)
}

func sidNum(s string) int {
	if n, err := strconv.Atoi(s); err == nil && n >= 0 {
		return n
	}
	return -1
}

// producerProjection: [[key, schema id, payload type]]
func producerProjection(p *arrow_record.Producer) []any {
	out := []any{}
	for _, s := range p.VerifStreams() {
		out = append(out, []any{shortKey(s.Key), sidNum(s.SchemaID), s.PayloadType})
	}
	return out
}

// consumerProjection: [[schema id, payload type, reader state]]
func consumerProjection(c *arrow_record.Consumer) []any {
	out := []any{}
	for _, s := range c.VerifStreams() {
		out = append(out, []any{sidNum(s.SchemaID), s.PayloadType, s.State})
	}
	return out
}

func producerNext(p *arrow_record.Producer) int { return 0 }

// consumerIDs: the schema ids the consumer currently has a stream consumer for.
func consumerIDs(c *arrow_record.Consumer) []string {
	out := []string{}
	for _, s := range c.VerifStreams() {
		out = append(out, s.SchemaID)
	}
	return out
}

// consumerOpenIDs: the schema ids whose IPC reader has been opened (whatever became of it).
func consumerOpenIDs(c *arrow_record.Consumer) []string {
	out := []string{}
	for _, s := range c.VerifStreams() {
		if s.State != "unopened" {
			out = append(out, s.SchemaID)
		}
	}
	return out
}

// consumerStates: schema id -> state of its IPC reader ("unopened", "open", "err").
func consumerStates(c *arrow_record.Consumer) map[string]string {
	out := map[string]string{}
	for _, s := range c.VerifStreams() {
		out[s.SchemaID] = s.State
	}
	return out
}
