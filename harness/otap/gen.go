package otap

import (
	"fmt"
	"math"
	"math/rand"
	"strings"

	"go.opentelemetry.io/collector/pdata/pcommon"
	"go.opentelemetry.io/collector/pdata/plog"
	"go.opentelemetry.io/collector/pdata/pmetric"
	"go.opentelemetry.io/collector/pdata/ptrace"
)

// Gen is the seeded adversarial generator: small alphabets biased towards
// zero / empty / boundary / repeated / type-confusable values, so that optional
// columns appear and disappear, dictionaries are reused, and identity strings
// of resources and scopes collide if they can.
type Gen struct {
	R *rand.Rand
	// Profile knobs
	Guarded  bool // stay inside the domain of C01-C03 (valid UTF-8, timestamps <= 2^63-1, nesting <= 16)
	Twins    bool // add near-identical resources / scopes (same keys, values differing in type or delimiters)
	Rich     int  // 0: minimal (mostly zero/empty), 1: mixed, 2: everything set
	MaxRes   int
	MaxScope int
	MaxItems int
	Uniq     int // counter for unique strings
	// Uniform > 0: every attribute map of the batch has the same shape (variant Uniform), every metric kind occurs and
	// every data point has exemplars with attributes: sibling records (resource/scope/item/event/link/exemplar attributes)
	// then share one Arrow schema signature
	Uniform int
	kind    int
	seen    []seenAttr // attributes generated so far in this batch (for equal / near-twin values under the same key)
}

// some returns a count in [0,n), at least 1 in uniform mode.
func (g *Gen) some(n int) int {
	x := g.R.Intn(n)
	if g.Uniform > 0 && x == 0 {
		x = 1
	}
	return x
}

var strs = []string{"", "a", "b", "1", "true", "x,b:y", "a|b", "{", "héllo", "0", "1.0", "[1]", "k=v", "a\"b", " "}
var keys = []string{"k", "a", "b", "", "k2", "K", "k.x", "k,1"}
var i64s = []int64{0, 0, 1, -1, math.MaxInt64, math.MinInt64, 255, 65536}
var f64s = []float64{0, 0, 1, -1.5, math.Copysign(0, -1), math.NaN(), math.Inf(1), math.Inf(-1), math.MaxFloat64, math.SmallestNonzeroFloat64}
var u32s = []uint32{0, 0, 0, 1, math.MaxUint32}
var u64s = []uint64{0, 0, 1, 2, math.MaxInt64, math.MaxUint64}

func pick[T any](r *rand.Rand, xs []T) T { return xs[r.Intn(len(xs))] }

func (g *Gen) zeroish() bool {
	switch g.Rich {
	case 0:
		return g.R.Intn(10) < 8
	case 2:
		return false
	}
	return g.R.Intn(10) < 3
}

func (g *Gen) str() string {
	if g.zeroish() {
		return ""
	}
	if !g.Guarded && g.R.Intn(12) == 0 {
		return string([]byte{0xff, 0xfe, 'x'}) // invalid UTF-8
	}
	if g.R.Intn(15) == 0 {
		g.Uniq++
		return fmt.Sprintf("u%d", g.Uniq)
	}
	return pick(g.R, strs)
}

func (g *Gen) u32() uint32 {
	if g.zeroish() {
		return 0
	}
	return pick(g.R, u32s)
}

func (g *Gen) u64() uint64 {
	if g.zeroish() {
		return 0
	}
	return pick(g.R, u64s)
}

func (g *Gen) f64() float64 {
	if g.zeroish() {
		return 0
	}
	return pick(g.R, f64s)
}

func (g *Gen) ts() pcommon.Timestamp {
	if g.zeroish() {
		return 0
	}
	c := []uint64{0, 1, 1000, 1 << 40, math.MaxInt64}
	if !g.Guarded {
		c = append(c, math.MaxUint64, 1<<63)
	}
	return pcommon.Timestamp(pick(g.R, c))
}

func (g *Gen) tid() (t pcommon.TraceID) {
	switch g.R.Intn(4) {
	case 1:
		t[0] = 1
	case 2:
		t[15] = byte(g.R.Intn(3))
	case 3:
		for i := range t {
			t[i] = byte(g.R.Intn(256))
		}
	}
	return
}

func (g *Gen) sid() (s pcommon.SpanID) {
	switch g.R.Intn(4) {
	case 1:
		s[0] = 1
	case 2:
		s[7] = byte(g.R.Intn(3))
	case 3:
		for i := range s {
			s[i] = byte(g.R.Intn(256))
		}
	}
	return
}

func (g *Gen) val(v pcommon.Value, depth int) {
	n := 8
	if depth > 2 {
		n = 6
	}
	switch g.R.Intn(n) {
	case 0:
		v.SetStr(g.str())
	case 1:
		v.SetInt(pick(g.R, i64s))
	case 2:
		v.SetDouble(pick(g.R, f64s))
	case 3:
		v.SetBool(g.R.Intn(2) == 0)
	case 4:
		b := v.SetEmptyBytes()
		if g.R.Intn(2) == 0 {
			b.FromRaw([]byte{1, 2, byte(g.R.Intn(3))})
		}
	case 5:
		// unset
	case 6:
		s := v.SetEmptySlice()
		for i := g.R.Intn(3); i > 0; i-- {
			g.val(s.AppendEmpty(), depth+1)
		}
	case 7:
		m := v.SetEmptyMap()
		for i := g.R.Intn(3); i > 0; i-- {
			g.val(m.PutEmpty(pick(g.R, keys)), depth+1)
		}
	}
}

type seenAttr struct {
	key string
	val pcommon.Value
}

// nearTwin changes v into a value that differs from it only by an "empty-ish" leaf: empty bytes <-> unset,
// "" <-> unset, inside lists and maps; an empty list gains an unset element.  Scalars other than these stay as they are.
func nearTwin(r *rand.Rand, v pcommon.Value, depth int) {
	flip := func(x pcommon.Value) bool {
		switch x.Type() {
		case pcommon.ValueTypeEmpty:
			if r.Intn(2) == 0 {
				x.SetEmptyBytes()
			} else {
				x.SetStr("")
			}
			return true
		case pcommon.ValueTypeBytes:
			if x.Bytes().Len() == 0 {
				pcommon.NewValueEmpty().CopyTo(x)
				return true
			}
		case pcommon.ValueTypeStr:
			if x.Str() == "" {
				pcommon.NewValueEmpty().CopyTo(x)
				return true
			}
		}
		return false
	}
	switch v.Type() {
	case pcommon.ValueTypeSlice:
		s := v.Slice()
		if s.Len() == 0 {
			s.AppendEmpty()
			return
		}
		for i := 0; i < s.Len(); i++ {
			if flip(s.At(i)) {
				return
			}
		}
		if depth < 3 {
			nearTwin(r, s.At(r.Intn(s.Len())), depth+1)
		}
	case pcommon.ValueTypeMap:
		done := false
		v.Map().Range(func(_ string, x pcommon.Value) bool {
			if flip(x) {
				done = true
				return false
			}
			return true
		})
		if !done && v.Map().Len() == 0 {
			v.Map().PutEmpty("e")
		}
	case pcommon.ValueTypeDouble:
		// values that compare equal but are not the same bits (and the other way round: NaN)
		if v.Double() == 0 {
			v.SetDouble(math.Copysign(0, -1) * math.Copysign(1, v.Double()))
		}
	default:
		if depth > 0 {
			flip(v)
		}
	}
}

// deep builds a value nested `d` levels (alternating lists and maps).
func deep(v pcommon.Value, d int) {
	for i := 0; i < d; i++ {
		if i%2 == 0 {
			v = v.SetEmptySlice().AppendEmpty()
		} else {
			v = v.SetEmptyMap().PutEmpty("n")
		}
	}
	v.SetStr("leaf")
}

func (g *Gen) attrs(m pcommon.Map) {
	if g.Uniform > 0 {
		m.PutStr("k", pick(g.R, []string{"v", "w", "x"}))
		if g.Uniform >= 2 {
			m.PutInt("n", int64(g.R.Intn(3)))
		}
		if g.Uniform >= 3 {
			m.PutDouble("d", 1.5)
			m.PutBool("b", true)
		}
		return
	}
	n := g.R.Intn(4)
	if g.Rich == 0 && g.R.Intn(2) == 0 {
		n = 0
	}
	for i := n; i > 0; i-- {
		if len(g.seen) > 0 && g.R.Intn(4) == 0 {
			// the same key as an earlier attribute of this batch (another parent, possibly another table) with the same
			// value or a near twin of it: values that are equal, or differ only where the encoding normalises
			// (an empty byte string / empty string / unset value nested in a list or map)
			e := g.seen[g.R.Intn(len(g.seen))]
			v := m.PutEmpty(e.key)
			e.val.CopyTo(v)
			if g.R.Intn(2) == 0 {
				nearTwin(g.R, v, 0)
			}
			continue
		}
		k := pick(g.R, keys)
		v := m.PutEmpty(k)
		g.val(v, 0)
		if len(g.seen) < 24 {
			c := pcommon.NewValueEmpty()
			v.CopyTo(c)
			g.seen = append(g.seen, seenAttr{key: k, val: c})
		}
	}
	if g.R.Intn(60) == 0 {
		d := 15
		if !g.Guarded {
			d = 15 + g.R.Intn(40)
		}
		deep(m.PutEmpty("deep"), d)
	}
}

func (g *Gen) res(r pcommon.Resource) {
	g.attrs(r.Attributes())
	r.SetDroppedAttributesCount(g.u32())
}

func (g *Gen) scope(s pcommon.InstrumentationScope) {
	s.SetName(g.str())
	s.SetVersion(g.str())
	g.attrs(s.Attributes())
	s.SetDroppedAttributesCount(g.u32())
}

// twin rewrites the attributes of b into a near-identical copy of a's: same
// keys, one value changed in type only or in an embedded delimiter.
func (g *Gen) twin(a, b pcommon.Map) {
	a.CopyTo(b)
	if a.Len() == 0 {
		a.PutStr("k", "1")
		b.PutInt("k", 1)
		return
	}
	done := false
	b.Range(func(k string, v pcommon.Value) bool {
		if done {
			return false
		}
		switch v.Type() {
		case pcommon.ValueTypeStr:
			s := v.Str()
			switch s {
			case "1", "0":
				v.SetInt(int64(s[0] - '0'))
			case "true":
				v.SetBool(true)
			case "1.0":
				v.SetDouble(1)
			default:
				v.SetStr(s + ",")
			}
			done = true
		case pcommon.ValueTypeInt:
			v.SetStr(fmt.Sprint(v.Int()))
			done = true
		case pcommon.ValueTypeBool:
			v.SetStr(fmt.Sprint(v.Bool()))
			done = true
		case pcommon.ValueTypeDouble:
			if v.Double() == math.Trunc(v.Double()) && !math.IsInf(v.Double(), 0) && math.Abs(v.Double()) < 1e15 {
				v.SetInt(int64(v.Double()))
				done = true
			}
		}
		return true
	})
	if !done {
		a.PutStr("tw", "x")
		b.PutStr("tw", "x,")
	}
}

// fieldTwinScope makes b a copy of a that differs in exactly one identity field other than the attributes.
func (g *Gen) fieldTwinScope(a, b pcommon.InstrumentationScope) (urlDiffers bool) {
	a.CopyTo(b)
	switch g.R.Intn(4) {
	case 0:
		b.SetName(a.Name() + "'")
	case 1:
		b.SetVersion(a.Version() + "'")
	case 2:
		b.SetDroppedAttributesCount(a.DroppedAttributesCount() + 3)
	default:
		return true
	}
	return false
}

func (g *Gen) nres() int   { return 1 + g.R.Intn(max(1, g.MaxRes)) }
func (g *Gen) nscope() int { return g.R.Intn(max(1, g.MaxScope) + 1) }
func (g *Gen) nitems() int {
	if g.Uniform > 0 {
		return max(5, g.MaxItems)
	}
	return g.R.Intn(max(1, g.MaxItems) + 1)
}

func (g *Gen) Traces() ptrace.Traces {
	td := ptrace.NewTraces()
	for i := g.nres(); i > 0; i-- {
		rs := td.ResourceSpans().AppendEmpty()
		g.res(rs.Resource())
		rs.SetSchemaUrl(g.str())
		for j := g.nscope(); j > 0; j-- {
			ss := rs.ScopeSpans().AppendEmpty()
			g.scope(ss.Scope())
			ss.SetSchemaUrl(g.str())
			for k := g.nitems(); k > 0; k-- {
				g.span(ss.Spans().AppendEmpty())
			}
		}
	}
	if g.Twins && td.ResourceSpans().Len() > 0 {
		src := td.ResourceSpans().At(g.R.Intn(td.ResourceSpans().Len()))
		// the scopes of the twin resources are identical down to a non-empty schema URL
		for j := 0; j < src.ScopeSpans().Len(); j++ {
			if src.ScopeSpans().At(j).SchemaUrl() == "" && g.R.Intn(2) == 0 {
				src.ScopeSpans().At(j).SetSchemaUrl("https://twin/scope")
			}
		}
		dst := td.ResourceSpans().AppendEmpty()
		src.CopyTo(dst)
		switch v := g.R.Intn(5); {
		case v == 0 && src.ScopeSpans().Len() > 0:
			// the twin scope sits under the SAME resource and differs in one non-attribute field
			j := g.R.Intn(src.ScopeSpans().Len())
			td.ResourceSpans().RemoveIf(func(x ptrace.ResourceSpans) bool { return x == dst })
			tw := src.ScopeSpans().AppendEmpty()
			src.ScopeSpans().At(j).CopyTo(tw)
			if g.fieldTwinScope(src.ScopeSpans().At(j).Scope(), tw.Scope()) {
				tw.SetSchemaUrl(src.ScopeSpans().At(j).SchemaUrl() + "'")
			}
			for k := 0; k < tw.Spans().Len(); k++ {
				tw.Spans().At(k).SetName(fmt.Sprintf("ftwin-%d", k))
			}
			return td
		case v == 1:
			dst.Resource().SetDroppedAttributesCount(src.Resource().DroppedAttributesCount() + 5)
		case v == 2:
			dst.SetSchemaUrl(src.SchemaUrl() + "'")
		case v == 3 || dst.ScopeSpans().Len() == 0:
			g.twin(src.Resource().Attributes(), dst.Resource().Attributes())
		default:
			j := g.R.Intn(dst.ScopeSpans().Len())
			g.twin(src.ScopeSpans().At(j).Scope().Attributes(), dst.ScopeSpans().At(j).Scope().Attributes())
		}
		for j := 0; j < dst.ScopeSpans().Len(); j++ {
			for k := 0; k < dst.ScopeSpans().At(j).Spans().Len(); k++ {
				dst.ScopeSpans().At(j).Spans().At(k).SetName(fmt.Sprintf("twin-%d-%d", j, k))
			}
		}
	}
	return td
}

func (g *Gen) span(s ptrace.Span) {
	s.SetTraceID(g.tid())
	s.SetSpanID(g.sid())
	s.SetParentSpanID(g.sid())
	s.TraceState().FromRaw(g.str())
	s.SetName(g.str())
	s.SetKind(ptrace.SpanKind(g.R.Intn(6)))
	s.SetStartTimestamp(g.ts())
	s.SetEndTimestamp(g.ts())
	g.attrs(s.Attributes())
	s.SetDroppedAttributesCount(g.u32())
	s.SetDroppedEventsCount(g.u32())
	s.SetDroppedLinksCount(g.u32())
	s.Status().SetCode(ptrace.StatusCode(g.R.Intn(3)))
	s.Status().SetMessage(g.str())
	for e := g.R.Intn(3); e > 0; e-- {
		ev := s.Events().AppendEmpty()
		ev.SetName(g.str())
		ev.SetTimestamp(g.ts())
		g.attrs(ev.Attributes())
		ev.SetDroppedAttributesCount(g.u32())
	}
	for l := g.R.Intn(3); l > 0; l-- {
		lk := s.Links().AppendEmpty()
		lk.SetTraceID(g.tid())
		lk.SetSpanID(g.sid())
		lk.TraceState().FromRaw(g.str())
		g.attrs(lk.Attributes())
		lk.SetDroppedAttributesCount(g.u32())
	}
}

func (g *Gen) Logs() plog.Logs {
	ld := plog.NewLogs()
	for i := g.nres(); i > 0; i-- {
		rl := ld.ResourceLogs().AppendEmpty()
		g.res(rl.Resource())
		rl.SetSchemaUrl(g.str())
		for j := g.nscope(); j > 0; j-- {
			sl := rl.ScopeLogs().AppendEmpty()
			g.scope(sl.Scope())
			sl.SetSchemaUrl(g.str())
			for k := g.nitems(); k > 0; k-- {
				l := sl.LogRecords().AppendEmpty()
				l.SetTimestamp(g.ts())
				l.SetObservedTimestamp(g.ts())
				l.SetTraceID(g.tid())
				l.SetSpanID(g.sid())
				l.SetSeverityNumber(plog.SeverityNumber(g.R.Intn(4)))
				l.SetSeverityText(g.str())
				g.val(l.Body(), 0)
				g.attrs(l.Attributes())
				l.SetDroppedAttributesCount(g.u32())
				l.SetFlags(plog.LogRecordFlags(g.u32()))
			}
		}
	}
	if g.Twins && ld.ResourceLogs().Len() > 0 {
		src := ld.ResourceLogs().At(g.R.Intn(ld.ResourceLogs().Len()))
		for j := 0; j < src.ScopeLogs().Len(); j++ {
			if src.ScopeLogs().At(j).SchemaUrl() == "" && g.R.Intn(2) == 0 {
				src.ScopeLogs().At(j).SetSchemaUrl("https://twin/scope")
			}
		}
		dst := ld.ResourceLogs().AppendEmpty()
		src.CopyTo(dst)
		switch v := g.R.Intn(5); {
		case v == 0 && src.ScopeLogs().Len() > 0:
			j := g.R.Intn(src.ScopeLogs().Len())
			ld.ResourceLogs().RemoveIf(func(x plog.ResourceLogs) bool { return x == dst })
			tw := src.ScopeLogs().AppendEmpty()
			src.ScopeLogs().At(j).CopyTo(tw)
			if g.fieldTwinScope(src.ScopeLogs().At(j).Scope(), tw.Scope()) {
				tw.SetSchemaUrl(src.ScopeLogs().At(j).SchemaUrl() + "'")
			}
			for k := 0; k < tw.LogRecords().Len(); k++ {
				tw.LogRecords().At(k).SetSeverityText(fmt.Sprintf("ftwin-%d", k))
			}
			return ld
		case v == 1:
			dst.Resource().SetDroppedAttributesCount(src.Resource().DroppedAttributesCount() + 5)
		case v == 2:
			dst.SetSchemaUrl(src.SchemaUrl() + "'")
		case v == 3 || dst.ScopeLogs().Len() == 0:
			g.twin(src.Resource().Attributes(), dst.Resource().Attributes())
		default:
			j := g.R.Intn(dst.ScopeLogs().Len())
			g.twin(src.ScopeLogs().At(j).Scope().Attributes(), dst.ScopeLogs().At(j).Scope().Attributes())
		}
		for j := 0; j < dst.ScopeLogs().Len(); j++ {
			for k := 0; k < dst.ScopeLogs().At(j).LogRecords().Len(); k++ {
				dst.ScopeLogs().At(j).LogRecords().At(k).SetSeverityText(fmt.Sprintf("twin-%d-%d", j, k))
			}
		}
		// the same scope under two different resources
		if ld.ResourceLogs().Len() >= 2 && src.ScopeLogs().Len() > 0 {
			other := ld.ResourceLogs().At(0)
			src.ScopeLogs().At(0).CopyTo(other.ScopeLogs().AppendEmpty())
		}
	}
	return ld
}

func (g *Gen) exemplars(es pmetric.ExemplarSlice) {
	for i := g.some(3); i > 0; i-- {
		e := es.AppendEmpty()
		e.SetTimestamp(g.ts())
		switch g.R.Intn(3) {
		case 0:
			e.SetIntValue(pick(g.R, i64s))
		case 1:
			e.SetDoubleValue(pick(g.R, f64s))
		}
		e.SetTraceID(g.tid())
		e.SetSpanID(g.sid())
		if g.Uniform > 0 || g.R.Intn(2) == 0 {
			g.attrs(e.FilteredAttributes())
		}
	}
}

func (g *Gen) buckets(s pcommon.UInt64Slice) {
	for i := g.R.Intn(4); i > 0; i-- {
		s.Append(g.u64())
	}
}

func (g *Gen) optF() (bool, float64) {
	if g.R.Intn(2) == 0 {
		return false, 0
	}
	return true, g.f64()
}

func (g *Gen) Metrics() pmetric.Metrics {
	md := pmetric.NewMetrics()
	for i := g.nres(); i > 0; i-- {
		rm := md.ResourceMetrics().AppendEmpty()
		g.res(rm.Resource())
		rm.SetSchemaUrl(g.str())
		for j := g.nscope(); j > 0; j-- {
			sm := rm.ScopeMetrics().AppendEmpty()
			g.scope(sm.Scope())
			sm.SetSchemaUrl(g.str())
			for k := g.nitems(); k > 0; k-- {
				g.metric(sm.Metrics().AppendEmpty())
			}
		}
	}
	if g.Twins && md.ResourceMetrics().Len() > 0 {
		src := md.ResourceMetrics().At(g.R.Intn(md.ResourceMetrics().Len()))
		for j := 0; j < src.ScopeMetrics().Len(); j++ {
			if src.ScopeMetrics().At(j).SchemaUrl() == "" && g.R.Intn(2) == 0 {
				src.ScopeMetrics().At(j).SetSchemaUrl("https://twin/scope")
			}
		}
		dst := md.ResourceMetrics().AppendEmpty()
		src.CopyTo(dst)
		switch v := g.R.Intn(5); {
		case v == 0 && src.ScopeMetrics().Len() > 0:
			j := g.R.Intn(src.ScopeMetrics().Len())
			md.ResourceMetrics().RemoveIf(func(x pmetric.ResourceMetrics) bool { return x == dst })
			tw := src.ScopeMetrics().AppendEmpty()
			src.ScopeMetrics().At(j).CopyTo(tw)
			if g.fieldTwinScope(src.ScopeMetrics().At(j).Scope(), tw.Scope()) {
				tw.SetSchemaUrl(src.ScopeMetrics().At(j).SchemaUrl() + "'")
			}
			for k := 0; k < tw.Metrics().Len(); k++ {
				tw.Metrics().At(k).SetName(fmt.Sprintf("ftwin-%d", k))
			}
			return md
		case v == 1:
			dst.Resource().SetDroppedAttributesCount(src.Resource().DroppedAttributesCount() + 5)
		case v == 2:
			dst.SetSchemaUrl(src.SchemaUrl() + "'")
		case v == 3 || dst.ScopeMetrics().Len() == 0:
			g.twin(src.Resource().Attributes(), dst.Resource().Attributes())
		default:
			j := g.R.Intn(dst.ScopeMetrics().Len())
			g.twin(src.ScopeMetrics().At(j).Scope().Attributes(), dst.ScopeMetrics().At(j).Scope().Attributes())
		}
		for j := 0; j < dst.ScopeMetrics().Len(); j++ {
			for k := 0; k < dst.ScopeMetrics().At(j).Metrics().Len(); k++ {
				dst.ScopeMetrics().At(j).Metrics().At(k).SetName(fmt.Sprintf("twin-%d-%d", j, k))
			}
		}
	}
	return md
}

func (g *Gen) metric(m pmetric.Metric) {
	m.SetName(g.str())
	m.SetDescription(g.str())
	m.SetUnit(g.str())
	ndp := func(s pmetric.NumberDataPointSlice) {
		for x := g.some(3); x > 0; x-- {
			d := s.AppendEmpty()
			d.SetStartTimestamp(g.ts())
			d.SetTimestamp(g.ts())
			switch g.R.Intn(3) {
			case 0:
				d.SetIntValue(pick(g.R, i64s))
			case 1:
				d.SetDoubleValue(pick(g.R, f64s))
			}
			d.SetFlags(pmetric.DataPointFlags(g.u32()))
			g.attrs(d.Attributes())
			g.exemplars(d.Exemplars())
		}
	}
	kind := g.R.Intn(6)
	if g.Uniform > 0 {
		kind = g.kind % 5
		g.kind++
	}
	switch kind {
	case 0:
		ndp(m.SetEmptyGauge().DataPoints())
	case 1:
		s := m.SetEmptySum()
		s.SetAggregationTemporality(pmetric.AggregationTemporality(g.R.Intn(3)))
		s.SetIsMonotonic(g.R.Intn(2) == 0)
		ndp(s.DataPoints())
	case 2:
		h := m.SetEmptyHistogram()
		h.SetAggregationTemporality(pmetric.AggregationTemporality(g.R.Intn(3)))
		for x := g.some(3); x > 0; x-- {
			d := h.DataPoints().AppendEmpty()
			d.SetStartTimestamp(g.ts())
			d.SetTimestamp(g.ts())
			d.SetCount(g.u64())
			if ok, f := g.optF(); ok {
				d.SetSum(f)
			}
			if ok, f := g.optF(); ok {
				d.SetMin(f)
			}
			if ok, f := g.optF(); ok {
				d.SetMax(f)
			}
			g.buckets(d.BucketCounts())
			for y := g.R.Intn(3); y > 0; y-- {
				d.ExplicitBounds().Append(g.f64())
			}
			d.SetFlags(pmetric.DataPointFlags(g.u32()))
			g.attrs(d.Attributes())
			g.exemplars(d.Exemplars())
		}
	case 3:
		h := m.SetEmptyExponentialHistogram()
		h.SetAggregationTemporality(pmetric.AggregationTemporality(g.R.Intn(3)))
		for x := g.some(3); x > 0; x-- {
			d := h.DataPoints().AppendEmpty()
			d.SetStartTimestamp(g.ts())
			d.SetTimestamp(g.ts())
			d.SetCount(g.u64())
			if ok, f := g.optF(); ok {
				d.SetSum(f)
			}
			if ok, f := g.optF(); ok {
				d.SetMin(f)
			}
			if ok, f := g.optF(); ok {
				d.SetMax(f)
			}
			d.SetScale(int32(g.R.Intn(3) - 1))
			d.SetZeroCount(g.u64())
			d.Positive().SetOffset(int32(g.R.Intn(3)))
			g.buckets(d.Positive().BucketCounts())
			d.Negative().SetOffset(int32(g.R.Intn(3) - 1))
			g.buckets(d.Negative().BucketCounts())
			d.SetFlags(pmetric.DataPointFlags(g.u32()))
			g.attrs(d.Attributes())
			g.exemplars(d.Exemplars())
		}
	case 4:
		s := m.SetEmptySummary()
		for x := g.some(3); x > 0; x-- {
			d := s.DataPoints().AppendEmpty()
			d.SetStartTimestamp(g.ts())
			d.SetTimestamp(g.ts())
			d.SetCount(g.u64())
			d.SetSum(g.f64())
			for y := g.R.Intn(3); y > 0; y-- {
				q := d.QuantileValues().AppendEmpty()
				q.SetQuantile(g.f64())
				q.SetValue(g.f64())
			}
			d.SetFlags(pmetric.DataPointFlags(g.u32()))
			g.attrs(d.Attributes())
		}
	case 5: // no data type
	}
}

// ---------------------------------------------------------------- structured batches

// RampLogs: n log records; column `col` takes `distinct` different values
// starting at `base` (cardinality ramps for the dictionary state machine).
func RampLogs(n, distinct, base int, col string) plog.Logs {
	ld := plog.NewLogs()
	rl := ld.ResourceLogs().AppendEmpty()
	rl.Resource().Attributes().PutStr("svc", "ramp")
	if col == "all" {
		// every dictionary column of the main record (and of the attribute record) grows in the same batch; one scope
		// per record so that the scope columns grow too
		for i := 0; i < n; i++ {
			k := base + i%max(1, distinct)
			v := fmt.Sprintf("v%07d", k)
			sl := rl.ScopeLogs().AppendEmpty()
			sl.Scope().SetName("n" + v)
			sl.Scope().SetVersion("ver" + v)
			sl.SetSchemaUrl("u" + v)
			l := sl.LogRecords().AppendEmpty()
			l.SetTimestamp(pcommon.Timestamp(1 + i))
			l.Body().SetStr("b" + v)
			l.SetSeverityText("s" + v)
			l.SetEventName("e" + v)
			l.Attributes().PutStr("k", "a"+v)
			l.Attributes().PutInt("i", int64(k))
		}
		return ld
	}
	sl := rl.ScopeLogs().AppendEmpty()
	for i := 0; i < n; i++ {
		l := sl.LogRecords().AppendEmpty()
		v := fmt.Sprintf("v%07d", base+i%max(1, distinct))
		l.SetTimestamp(pcommon.Timestamp(1 + i))
		switch col {
		case "body":
			l.Body().SetStr(v)
		case "sevtext":
			l.SetSeverityText(v)
			l.Body().SetStr("same")
		case "attr":
			l.Attributes().PutStr("k", v)
			l.Body().SetStr("same")
		case "attrkey":
			l.Attributes().PutStr(v, "same")
		}
	}
	return ld
}

func RampTraces(n, distinct, base int, col string) ptrace.Traces {
	td := ptrace.NewTraces()
	rs := td.ResourceSpans().AppendEmpty()
	rs.Resource().Attributes().PutStr("svc", "ramp")
	if col == "all" {
		for i := 0; i < n; i++ {
			k := base + i%max(1, distinct)
			v := fmt.Sprintf("v%07d", k)
			ss := rs.ScopeSpans().AppendEmpty()
			ss.Scope().SetName("n" + v)
			ss.Scope().SetVersion("ver" + v)
			ss.SetSchemaUrl("u" + v)
			s := ss.Spans().AppendEmpty()
			s.SetStartTimestamp(pcommon.Timestamp(1 + i))
			s.SetEndTimestamp(pcommon.Timestamp(1 + i + 1000*k))
			s.SetSpanID(pcommon.SpanID([8]byte{byte(i), byte(i >> 8), byte(i >> 16), 1}))
			s.SetName("s" + v)
			s.TraceState().FromRaw("k=" + v)
			s.Status().SetMessage("m" + v)
			s.Attributes().PutStr("k", "a"+v)
			s.Events().AppendEmpty().SetName("e" + v)
		}
		return td
	}
	ss := rs.ScopeSpans().AppendEmpty()
	for i := 0; i < n; i++ {
		s := ss.Spans().AppendEmpty()
		v := fmt.Sprintf("v%07d", base+i%max(1, distinct))
		s.SetStartTimestamp(pcommon.Timestamp(1 + i))
		s.SetSpanID(pcommon.SpanID([8]byte{byte(i), byte(i >> 8), byte(i >> 16), 1}))
		switch col {
		case "name":
			s.SetName(v)
		case "attr":
			s.SetName("same")
			s.Attributes().PutStr("k", v)
		case "event":
			s.SetName("same")
			s.Events().AppendEmpty().SetName(v)
		case "tracestate":
			s.TraceState().FromRaw(v)
		}
	}
	return td
}

func RampMetrics(n, distinct, base int, col string) pmetric.Metrics {
	md := pmetric.NewMetrics()
	rm := md.ResourceMetrics().AppendEmpty()
	rm.Resource().Attributes().PutStr("svc", "ramp")
	if col == "all" {
		for i := 0; i < n; i++ {
			k := base + i%max(1, distinct)
			v := fmt.Sprintf("v%07d", k)
			sm := rm.ScopeMetrics().AppendEmpty()
			sm.Scope().SetName("n" + v)
			sm.Scope().SetVersion("ver" + v)
			sm.SetSchemaUrl("u" + v)
			m := sm.Metrics().AppendEmpty()
			m.SetName("m" + v)
			m.SetDescription("d" + v)
			m.SetUnit("u" + v)
			dp := m.SetEmptyGauge().DataPoints().AppendEmpty()
			dp.SetIntValue(int64(i))
			dp.Attributes().PutStr("k", "a"+v)
		}
		return md
	}
	sm := rm.ScopeMetrics().AppendEmpty()
	for i := 0; i < n; i++ {
		v := fmt.Sprintf("v%07d", base+i%max(1, distinct))
		m := sm.Metrics().AppendEmpty()
		dp := m.SetEmptyGauge().DataPoints().AppendEmpty()
		dp.SetIntValue(int64(i))
		switch col {
		case "name":
			m.SetName(v)
		case "attr":
			m.SetName("same")
			dp.Attributes().PutStr("k", v)
		case "unit":
			m.SetName("same")
			m.SetUnit(v)
		}
	}
	return md
}

// ParentsTraces: n spans, each with an attribute / an event / neither, spread
// over `nres` resources (id-width boundary batches of C08).
// parentAttr gives parent number idx its attribute.  With "ignored" in the variant some parents carry only attributes
// the encoder skips (an unset value, an empty key): they still need an id but contribute no attribute row.
func parentAttr(m pcommon.Map, idx int, with string) {
	if strings.Contains(with, "ignored") {
		switch idx % 7 {
		case 3:
			m.PutEmpty("e")
			return
		case 5:
			m.PutStr("", "v")
			return
		}
	}
	m.PutBool("a", true)
}

func ParentsTraces(n, nres int, with string) ptrace.Traces {
	td := ptrace.NewTraces()
	per := (n + nres - 1) / max(1, nres)
	made := 0
	for r := 0; r < nres && made < n; r++ {
		rs := td.ResourceSpans().AppendEmpty()
		// "resattr1": every resource but the first carries an attribute (65,535 attribute-bearing resources + one bare = the full id range)
		if strings.Contains(with, "resattr") && !(strings.Contains(with, "resattr1") && r == 0) {
			rs.Resource().Attributes().PutInt("r", int64(r))
		}
		ss := rs.ScopeSpans().AppendEmpty()
		for i := 0; i < per && made < n; i++ {
			s := ss.Spans().AppendEmpty()
			if with == "mixed" {
				// every span needs an id, but each related table stays below its own 65,535 groups
				switch made % 3 {
				case 0:
					s.Attributes().PutBool("a", true)
				case 1:
					s.Events().AppendEmpty()
				default:
					s.Links().AppendEmpty()
				}
				made++
				continue
			}
			if strings.Contains(with, "attr") && !strings.Contains(with, "resattr") || strings.Contains(with, "spanattr") {
				parentAttr(s.Attributes(), made, with)
			}
			if strings.Contains(with, "event") {
				s.Events().AppendEmpty()
			}
			if strings.Contains(with, "link") {
				s.Links().AppendEmpty()
			}
			made++
		}
	}
	return td
}

func ParentsLogs(n, nres int, with string) plog.Logs {
	ld := plog.NewLogs()
	per := (n + nres - 1) / max(1, nres)
	made := 0
	for r := 0; r < nres && made < n; r++ {
		rl := ld.ResourceLogs().AppendEmpty()
		// "resattr1": every resource but the first carries an attribute (65,535 attribute-bearing resources + one bare = the full id range)
		if strings.Contains(with, "resattr") && !(strings.Contains(with, "resattr1") && r == 0) {
			rl.Resource().Attributes().PutInt("r", int64(r))
		}
		sl := rl.ScopeLogs().AppendEmpty()
		for i := 0; i < per && made < n; i++ {
			l := sl.LogRecords().AppendEmpty()
			if strings.Contains(with, "logattr") {
				parentAttr(l.Attributes(), made, with)
			}
			made++
		}
	}
	return ld
}

func ParentsMetrics(n, nres int, with string) pmetric.Metrics {
	md := pmetric.NewMetrics()
	per := (n + nres - 1) / max(1, nres)
	made := 0
	for r := 0; r < nres && made < n; r++ {
		rm := md.ResourceMetrics().AppendEmpty()
		// "resattr1": every resource but the first carries an attribute (65,535 attribute-bearing resources + one bare = the full id range)
		if strings.Contains(with, "resattr") && !(strings.Contains(with, "resattr1") && r == 0) {
			rm.Resource().Attributes().PutInt("r", int64(r))
		}
		sm := rm.ScopeMetrics().AppendEmpty()
		for i := 0; i < per && made < n; i++ {
			m := sm.Metrics().AppendEmpty()
			dp := m.SetEmptyGauge().DataPoints().AppendEmpty()
			if strings.Contains(with, "dpattr") {
				parentAttr(dp.Attributes(), made, with)
			}
			made++
		}
	}
	return md
}
