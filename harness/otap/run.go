package otap

import (
	"bufio"
	"context"
	"crypto/sha256"
	"encoding/hex"
	"encoding/json"
	"errors"
	"fmt"
	"math"
	"math/rand"
	"runtime/debug"
	"strings"

	"github.com/apache/arrow-go/v18/arrow"
	"github.com/apache/arrow-go/v18/arrow/memory"
	colarspb "github.com/open-telemetry/otel-arrow/api/experimental/arrow/v1"
	"github.com/open-telemetry/otel-arrow/pkg/config"
	"github.com/open-telemetry/otel-arrow/pkg/otel/arrow_record"
	"github.com/open-telemetry/otel-arrow/pkg/record_message"
	"go.opentelemetry.io/collector/pdata/plog"
	"go.opentelemetry.io/collector/pdata/pmetric"
	"go.opentelemetry.io/collector/pdata/ptrace"
	"go.opentelemetry.io/otel/metric"
	"go.opentelemetry.io/otel/metric/noop"
	"google.golang.org/protobuf/proto"
)

// ---------------------------------------------------------------- plan

type Opts struct {
	Dict      string   `json:"dict"` // "", "none", "8", "16", "32", "64"
	Thr       *float64 `json:"thr"`  // nil = default; negative = +Inf
	Zstd      *bool    `json:"zstd"`
	OrderSpan string   `json:"orderSpan"`
	Attrs16   string   `json:"attrs16"`
	Attrs32   string   `json:"attrs32"`
	HasOrder  bool     `json:"hasOrder"` // orderSpan/attrs16/attrs32 are set explicitly (an empty string is a valid variant)
	Init      string   `json:"init"`     // initial dictionary index width: "", "8", "16", "32", "64"
	Stats     string   `json:"stats"`    // statistics the producer collects: any of "ratio", "producer" (comma separated)
}

type BatchSpec struct {
	Gen      string  `json:"gen"` // rand | ramp | parents
	Signal   string  `json:"signal"`
	Seed     int64   `json:"seed"`
	Rich     int     `json:"rich"`
	Twins    bool    `json:"twins"`
	Guarded  bool    `json:"guarded"`
	MaxRes   int     `json:"maxRes"`
	MaxScope int     `json:"maxScope"`
	MaxItems int     `json:"maxItems"`
	N        int     `json:"n"`
	Distinct int     `json:"distinct"`
	Base     int     `json:"base"`
	NRes     int     `json:"nres"`
	Col      string  `json:"col"`
	With     string  `json:"with"`
	NoDump   bool    `json:"nodump"`
	Faults   [][]any `json:"faults"`
	Resend   int     `json:"resend"` // >0: re-encode the input of batch (k - resend) instead of generating
	Stats    bool    `json:"stats"`  // call the public Producer.GetAndResetStats() before this batch
	// AllocFail: the producer's allocator starts failing (panicking, like the repository's LimitedAllocator) when the
	// first record of this batch is handed to the IPC writer, and recovers after the call: a fault INSIDE Produce
	AllocFail int `json:"allocfail"` // k > 0: from the k-th record of this batch on
}

// failAlloc wraps the producer's allocator; while fail is set every request for more memory panics.
type failAlloc struct {
	memory.Allocator
	fail bool
}

func (a *failAlloc) Allocate(n int) []byte {
	if a.fail {
		panic("verif: allocator exhausted")
	}
	return a.Allocator.Allocate(n)
}

func (a *failAlloc) Reallocate(n int, b []byte) []byte {
	if a.fail && n > len(b) {
		panic("verif: allocator exhausted")
	}
	return a.Allocator.Reallocate(n, b)
}

type Stream struct {
	ID       string      `json:"id"`
	Signal   string      `json:"signal"`
	Opts     Opts        `json:"opts"`
	Batches  []BatchSpec `json:"batches"`
	Limits   []uint64    `json:"limits"`
	NoDecode bool        `json:"nodecode"`
	NoWire   bool        `json:"nowire"`
	Props    []string    `json:"props"` // properties the round-trip clauses of this stream serve
	// Lag > 0: batch k is handed to the consumer only after batch k+Lag has been produced (a queue or a
	// retry buffer between producer and wire): an emitted BatchArrowRecords is a value of its own
	Lag  int `json:"lag"`
	Mode int `json:"mode"` // 0: inputs inside the domain of C01-C03; 2: unguarded inputs; 9: wire not walked
}

// ---------------------------------------------------------------- observers

type obsRec struct {
	evs      [][]any
	onRecord func()
}

func (o *obsRec) OnRecord(arrow.Record, record_message.PayloadType) {
	if o.onRecord != nil {
		o.onRecord()
	}
}
func (o *obsRec) OnNewField(rec, f string) {
	o.evs = append(o.evs, []any{"NewField", rec, f, "", "", 0, 0})
}
func (o *obsRec) OnDictionaryUpgrade(rec, f string, p, n arrow.DataType, card, total uint64) {
	o.evs = append(o.evs, []any{"Upgrade", rec, f, p.Name(), n.Name(), clamp(card), clamp(total)})
}
func (o *obsRec) OnDictionaryOverflow(rec, f string, card, total uint64) {
	o.evs = append(o.evs, []any{"Overflow", rec, f, "", "", clamp(card), clamp(total)})
}
func (o *obsRec) OnSchemaUpdate(rec string, old, new *arrow.Schema) {
	o.evs = append(o.evs, []any{"SchemaUpdate", rec, "", "", "", 0, 0})
}
func (o *obsRec) OnDictionaryReset(rec, f string, it arrow.DataType, card, total uint64) {
	o.evs = append(o.evs, []any{"Reset", rec, f, it.Name(), "", clamp(card), clamp(total)})
}
func (o *obsRec) OnMetadataUpdate(rec, k string) {
	o.evs = append(o.evs, []any{"MetadataUpdate", rec, k, "", "", 0, 0})
}

func clamp(u uint64) int {
	if u > math.MaxInt32 {
		return math.MaxInt32
	}
	return int(u)
}

// meter provider recording arrow_memory_inuse
type inuseRec struct {
	noop.Int64UpDownCounter
	cur, max int64
}

func (r *inuseRec) Add(_ context.Context, d int64, _ ...metric.AddOption) {
	r.cur += d
	if r.cur > r.max {
		r.max = r.cur
	}
}

type recMeter struct {
	noop.Meter
	r *inuseRec
}

func (m recMeter) Int64UpDownCounter(name string, _ ...metric.Int64UpDownCounterOption) (metric.Int64UpDownCounter, error) {
	if name == "arrow_memory_inuse" {
		return m.r, nil
	}
	return noop.Int64UpDownCounter{}, nil
}

// meter provider recording the consumer's two counters (arrow_batch_records, arrow_schema_resets)
type cntRec struct {
	noop.Int64Counter
	n int64
}

func (r *cntRec) Add(_ context.Context, d int64, _ ...metric.AddOption) { r.n += d }

type cntMeter struct {
	noop.Meter
	records, resets *cntRec
}

func (m cntMeter) Int64Counter(name string, _ ...metric.Int64CounterOption) (metric.Int64Counter, error) {
	switch name {
	case "arrow_batch_records":
		return m.records, nil
	case "arrow_schema_resets":
		return m.resets, nil
	}
	return noop.Int64Counter{}, nil
}

type cntProvider struct {
	noop.MeterProvider
	m cntMeter
}

func (p cntProvider) Meter(string, ...metric.MeterOption) metric.Meter { return p.m }

type recProvider struct {
	noop.MeterProvider
	r *inuseRec
}

func (p recProvider) Meter(string, ...metric.MeterOption) metric.Meter { return recMeter{r: p.r} }

// ---------------------------------------------------------------- helpers

func producerOptions(o Opts, pool memory.Allocator, ob *obsRec) []config.Option {
	opts := []config.Option{config.WithAllocator(pool), config.WithObserver(ob)}
	switch o.Dict {
	case "none":
		opts = append(opts, config.WithNoDictionary())
	case "8":
		opts = append(opts, config.WithUint8LimitDictIndex())
	case "16":
		opts = append(opts, config.WithUint16LimitDictIndex())
	case "32":
		opts = append(opts, config.WithUint32LimitDictIndex())
	case "64":
		opts = append(opts, config.WithUint64LimitDictIndex())
	}
	switch o.Init {
	case "8":
		opts = append(opts, config.WithUint8InitDictIndex())
	case "16":
		opts = append(opts, config.WithUint16InitDictIndex())
	case "32":
		opts = append(opts, config.WithUint32LinitDictIndex())
	case "64":
		opts = append(opts, config.WithUint64InitDictIndex())
	}
	if strings.Contains(o.Stats, "ratio") {
		opts = append(opts, config.WithCompressionRatioStats())
	}
	if strings.Contains(o.Stats, "producer") {
		opts = append(opts, config.WithProducerStats())
	}
	if o.Thr != nil {
		t := *o.Thr
		if t < 0 {
			t = math.Inf(1)
		}
		opts = append(opts, config.WithDictResetThreshold(t))
	}
	if o.Zstd != nil {
		if *o.Zstd {
			opts = append(opts, config.WithZstd())
		} else {
			opts = append(opts, config.WithNoZstd())
		}
	}
	if o.HasOrder {
		if v, ok := config.OrderSpanByVariants[o.OrderSpan]; ok {
			opts = append(opts, config.WithOrderSpanBy(v))
		}
		if v, ok := config.OrderAttrs16ByVariants[o.Attrs16]; ok {
			opts = append(opts, config.WithOrderAttrs16By(v))
		}
		if v, ok := config.OrderAttrs32ByVariants[o.Attrs32]; ok {
			opts = append(opts, config.WithOrderAttrs32By(v))
		}
	}
	return opts
}

func mainType(sig string) string {
	switch sig {
	case "logs":
		return "LOGS"
	case "metrics":
		return "UNIVARIATE_METRICS"
	}
	return "SPANS"
}

func makeInput(sig string, b BatchSpec) any {
	switch b.Gen {
	case "ramp":
		switch sig {
		case "logs":
			return RampLogs(b.N, b.Distinct, b.Base, b.Col)
		case "metrics":
			return RampMetrics(b.N, b.Distinct, b.Base, b.Col)
		}
		return RampTraces(b.N, b.Distinct, b.Base, b.Col)
	case "parents":
		switch sig {
		case "logs":
			return ParentsLogs(b.N, b.NRes, b.With)
		case "metrics":
			return ParentsMetrics(b.N, b.NRes, b.With)
		}
		return ParentsTraces(b.N, b.NRes, b.With)
	}
	g := &Gen{R: rand.New(rand.NewSource(b.Seed)), Guarded: b.Guarded, Twins: b.Twins, Rich: b.Rich,
		MaxRes: b.MaxRes, MaxScope: b.MaxScope, MaxItems: b.MaxItems}
	if b.Gen == "uniform" {
		g.Uniform = b.N
		if g.Uniform <= 0 {
			g.Uniform = 1
		}
	}
	switch sig {
	case "logs":
		return g.Logs()
	case "metrics":
		return g.Metrics()
	}
	return g.Traces()
}

func marshal(in any) []byte {
	switch d := in.(type) {
	case ptrace.Traces:
		b, _ := (&ptrace.ProtoMarshaler{}).MarshalTraces(d)
		return b
	case plog.Logs:
		b, _ := (&plog.ProtoMarshaler{}).MarshalLogs(d)
		return b
	case pmetric.Metrics:
		b, _ := (&pmetric.ProtoMarshaler{}).MarshalMetrics(d)
		return b
	}
	return nil
}

func dumpAny(in any) []*Node {
	switch d := in.(type) {
	case ptrace.Traces:
		return DumpTraces(d)
	case plog.Logs:
		return DumpLogs(d)
	case pmetric.Metrics:
		return DumpMetrics(d)
	}
	return []*Node{}
}

func itemCount(in any) int {
	switch d := in.(type) {
	case ptrace.Traces:
		return d.SpanCount()
	case plog.Logs:
		return d.LogRecordCount()
	case pmetric.Metrics:
		return d.MetricCount()
	}
	return 0
}

func digestNodes(ns []*Node) string {
	b, _ := json.Marshal(ns)
	h := sha256.Sum256(b)
	return hex.EncodeToString(h[:8])
}

func short(s string) string {
	if len(s) > 160 {
		s = s[:160]
	}
	return strings.Map(func(r rune) rune {
		if r < 0x20 || r > 0x7e || r == '"' || r == '\\' {
			return '.'
		}
		return r
	}, s)
}

// takeStats adds the producer's counters (created / closed stream producers, batches per signal) to acc and resets them.
func takeStats(p *arrow_record.Producer, acc *[5]int) {
	s := p.GetAndResetStats()
	acc[0] += int(s.StreamProducersCreated)
	acc[1] += int(s.StreamProducersClosed)
	acc[2] += int(s.TracesBatchesProduced)
	acc[3] += int(s.LogsBatchesProduced)
	acc[4] += int(s.MetricsBatchesProduced)
}

func encode(p *arrow_record.Producer, in any) (bar *colarspb.BatchArrowRecords, oc, msg string) {
	defer func() {
		if x := recover(); x != nil {
			oc, msg = "panic", short(fmt.Sprintf("%v | %s", x, firstFrames(debug.Stack())))
		}
	}()
	var err error
	switch d := in.(type) {
	case ptrace.Traces:
		bar, err = p.BatchArrowRecordsFromTraces(d)
	case plog.Logs:
		bar, err = p.BatchArrowRecordsFromLogs(d)
	case pmetric.Metrics:
		bar, err = p.BatchArrowRecordsFromMetrics(d)
	}
	if err != nil {
		return nil, "error", short(err.Error())
	}
	return bar, "ok", ""
}

func firstFrames(st []byte) string {
	lines := strings.Split(string(st), "\n")
	var out []string
	for _, l := range lines {
		l = strings.TrimSpace(l)
		i := strings.Index(l, "/pkg/")
		if i < 0 || !strings.Contains(l, ".go:") || strings.Contains(l, "/go/pkg/mod/") {
			continue
		}
		l = l[i+1:]
		if j := strings.Index(l, " "); j > 0 {
			l = l[:j]
		}
		out = append(out, l)
		if len(out) >= 3 {
			break
		}
	}
	return strings.Join(out, " < ")
}

func decode(c *arrow_record.Consumer, sig string, bar *colarspb.BatchArrowRecords) (out []*Node, n int, oc, msg string, limit bool) {
	defer func() {
		if x := recover(); x != nil {
			oc, msg = "panic", short(fmt.Sprintf("%v | %s", x, firstFrames(debug.Stack())))
		}
	}()
	out = []*Node{}
	var err error
	switch sig {
	case "logs":
		var r []plog.Logs
		r, err = c.LogsFrom(bar)
		for _, x := range r {
			out = append(out, DumpLogs(x)...)
			n += x.LogRecordCount()
		}
	case "metrics":
		var r []pmetric.Metrics
		r, err = c.MetricsFrom(bar)
		for _, x := range r {
			out = append(out, DumpMetrics(x)...)
			n += x.MetricCount()
		}
	default:
		var r []ptrace.Traces
		r, err = c.TracesFrom(bar)
		for _, x := range r {
			out = append(out, DumpTraces(x)...)
			n += x.SpanCount()
		}
	}
	if err != nil {
		return []*Node{}, 0, "error", short(err.Error()), errors.Is(err, arrow_record.ErrConsumerMemoryLimit)
	}
	return out, n, "ok", "", false
}

// ---------------------------------------------------------------- faults (C07)

func ptypeByName(s string) colarspb.ArrowPayloadType {
	if v, ok := colarspb.ArrowPayloadType_value[s]; ok {
		return colarspb.ArrowPayloadType(v)
	}
	return colarspb.ArrowPayloadType_UNKNOWN
}

func num(x any) int {
	if f, ok := x.(float64); ok {
		return int(f)
	}
	return 0
}

// applyFaults alters a copy of the batch at the payload level.  retired: a
// schema id the producer no longer uses (or "" when none exists yet).
func applyFaults(bar *colarspb.BatchArrowRecords, ops [][]any, retired string) (*colarspb.BatchArrowRecords, []any) {
	b := proto.Clone(bar).(*colarspb.BatchArrowRecords)
	applied := []any{}
	for _, op := range ops {
		if len(op) == 0 {
			continue
		}
		name, _ := op[0].(string)
		n := len(b.ArrowPayloads)
		i := 0
		if len(op) > 1 {
			i = num(op[1])
		}
		if n == 0 {
			continue
		}
		i = ((i % n) + n) % n // a negative index counts from the end (-1: the payload a preceding dup appended)
		switch name {
		case "relabel":
			t, _ := op[2].(string)
			b.ArrowPayloads[i].Type = ptypeByName(t)
			applied = append(applied, fmt.Sprintf("relabel(%d,%s)", i, t))
		case "drop":
			b.ArrowPayloads = append(b.ArrowPayloads[:i:i], b.ArrowPayloads[i+1:]...)
			applied = append(applied, fmt.Sprintf("drop(%d)", i))
		case "dup":
			b.ArrowPayloads = append(b.ArrowPayloads, proto.Clone(b.ArrowPayloads[i]).(*colarspb.ArrowPayload))
			applied = append(applied, fmt.Sprintf("dup(%d)", i))
		case "swap":
			j := ((num(op[2]) % n) + n) % n
			b.ArrowPayloads[i], b.ArrowPayloads[j] = b.ArrowPayloads[j], b.ArrowPayloads[i]
			applied = append(applied, fmt.Sprintf("swap(%d,%d)", i, j))
		case "empty":
			b.ArrowPayloads[i].Record = nil
			applied = append(applied, fmt.Sprintf("empty(%d)", i))
		case "unknownSid":
			b.ArrowPayloads[i].SchemaId = "zz-unknown"
			applied = append(applied, fmt.Sprintf("unknownSid(%d)", i))
		case "staleSid":
			if retired != "" {
				b.ArrowPayloads[i].SchemaId = retired
				applied = append(applied, fmt.Sprintf("staleSid(%d)", i))
			}
		}
	}
	return b, applied
}

// ---------------------------------------------------------------- running a stream

type Emitter struct {
	W   *bufio.Writer
	Seq int
	// SW, when set, receives the payload-level protocol events validated against Stream.tla
	SW   *bufio.Writer
	SSeq int
	// WW, when set, receives the id / parent-id view of small emitted batches (OtapWire.tla)
	WW   *bufio.Writer
	WSeq int
}

// EmitWire writes one emitted batch as the independent reader sees its id / parent-id columns, with the input.
func (e *Emitter) EmitWire(tr, k int, sig string, in []*Node, tabs []any) {
	if e.WW == nil {
		return
	}
	e.WSeq++
	b, err := json.Marshal(map[string]any{"tr": tr, "seq": e.WSeq, "k": k, "sig": sig, "in": in, "tabs": tabs})
	if err != nil {
		return
	}
	e.WW.Write(b)
	e.WW.WriteByte('\n')
}

// EmitStream writes one protocol event (uniform fields).
func (e *Emitter) EmitStream(tr int, ev string, f map[string]any) {
	if e.SW == nil {
		return
	}
	e.SSeq++
	rec := map[string]any{"tr": tr, "seq": e.SSeq, "ev": ev, "k": 0, "sig": "", "oc": "", "n": 0, "rows": 0,
		"pl": []any{}, "ps": []any{}, "fp": []any{}, "cs": []any{}, "st": []any{}, "next": 0, "x": ""}
	for k, v := range f {
		rec[k] = v
	}
	b, _ := json.Marshal(rec)
	e.SW.Write(b)
	e.SW.WriteByte('\n')
}

func hasSchemaMsg(b []byte) bool {
	for _, k := range msgKinds(b) {
		if k == "schema" {
			return true
		}
	}
	return false
}

func (e *Emitter) Emit(tr int, ev string, f map[string]any) {
	e.Seq++
	rec := map[string]any{
		"tr": tr, "seq": e.Seq, "ev": ev, "k": 0, "sig": "", "oc": "", "err": "", "n": 0,
		"in": []any{}, "out": []any{}, "flag": 0, "bid": 0, "pl": []any{}, "obs": []any{},
		"x": "", "a": 0, "b": 0, "l": []any{},
	}
	for k, v := range f {
		rec[k] = v
	}
	b, err := json.Marshal(rec)
	if err != nil {
		b, _ = json.Marshal(map[string]any{"tr": tr, "seq": e.Seq, "ev": "HarnessError", "err": short(err.Error())})
	}
	e.W.Write(b)
	e.W.WriteByte('\n')
}

func toStrings(xs []any) []string {
	out := make([]string, 0, len(xs))
	for _, x := range xs {
		out = append(out, fmt.Sprint(x))
	}
	return out
}

func boolp(b bool) int {
	if b {
		return 1
	}
	return 0
}

// SharedConsumerOptions, when set, is the one option slice every consumer is built from (the way a
// receiver builds its options once and creates a consumer per stream).
var SharedConsumerOptions []arrow_record.Option

// Capture records what a stream decoded, batch by batch (C16: concurrent vs alone).
type Capture struct {
	Oc  []string
	Out [][]*Node
}

func RunStream(em *Emitter, tr int, st *Stream) { RunStreamCapture(em, tr, st, nil) }

func RunStreamCapture(em *Emitter, tr int, st *Stream, capt *Capture) {
	for _, b := range st.Batches {
		if b.AllocFail > 0 && em.SW != nil {
			// a fault inside Produce is not a step of Stream.tla: such streams are not validated against it
			sw := em.SW
			em.SW = nil
			defer func() { em.SW = sw }()
			break
		}
	}
	pool := memory.NewCheckedAllocator(memory.NewGoAllocator())
	ob := &obsRec{}
	fa := &failAlloc{Allocator: pool}
	var p *arrow_record.Producer
	func() {
		defer func() {
			if x := recover(); x != nil {
				p = nil
			}
		}()
		p = arrow_record.NewProducerWithOptions(producerOptions(st.Opts, fa, ob)...)
	}()
	ojs, _ := json.Marshal(st.Opts)
	limitEntries := -1 // no limit
	switch st.Opts.Dict {
	case "":
		limitEntries = math.MaxUint16
	case "none":
		limitEntries = 0
	case "8":
		limitEntries = math.MaxUint8
	case "16":
		limitEntries = math.MaxUint16
	case "32":
		limitEntries = math.MaxInt32 // clamp (TLC integers are 32 bit)
	case "64":
		limitEntries = math.MaxInt32
	}
	props := []any{}
	for _, pr := range st.Props {
		props = append(props, pr)
	}
	em.Emit(tr, "Begin", map[string]any{"x": st.ID, "sig": st.Signal, "err": string(ojs), "a": limitEntries, "b": st.Mode, "l": props,
		"flag": boolp(st.NoWire)})
	if p == nil {
		em.Emit(tr, "End", map[string]any{"oc": "producer-create-panic"})
		return
	}
	em.EmitStream(tr, "Begin", map[string]any{"x": st.ID, "sig": st.Signal})
	// every second stream (and never when the option slice is shared on purpose) the consumer's own counters are
	// recorded: StreamTrace.tla states what they must be
	var cnt *cntMeter
	copts := SharedConsumerOptions
	if SharedConsumerOptions == nil && tr%2 == 1 {
		cnt = &cntMeter{records: &cntRec{}, resets: &cntRec{}}
		copts = []arrow_record.Option{arrow_record.WithMeterProvider(cntProvider{m: *cnt})}
	}
	c := arrow_record.NewConsumer(copts...)
	var cntSeen [2]int64
	wire := NewWire()
	wire.Tabs = em.WW != nil
	healthy := true
	inputs := []any{}
	sidOf := map[string]string{} // ptype -> current sid
	gapped := map[string]bool{}
	delivered := map[string]bool{} // schema ids the consumer has been handed so far
	retired := ""
	statsOff := false
	var pend [5]int // producer counters read but not yet reported (created, closed, traces, logs, metrics batches)
	type ladder struct {
		limit   uint64
		c       *arrow_record.Consumer
		rec     *inuseRec
		dead    bool
		refused bool
		gapped  map[string]bool // sub-streams of a batch this consumer refused: its readers missed (part of) that batch
		sticky  map[string]bool // sub-streams whose reader raised the memory-limit error: that error is sticky
	}
	var ladders []*ladder
	for _, l := range st.Limits {
		r := &inuseRec{}
		ladders = append(ladders, &ladder{limit: l, rec: r, gapped: map[string]bool{}, sticky: map[string]bool{},
			c: arrow_record.NewConsumer(arrow_record.WithMemoryLimit(l), arrow_record.WithMeterProvider(recProvider{r: r}))})
	}
	type emittedPayload struct {
		b   []byte
		sum [32]byte
	}
	var emitted []emittedPayload
	type lagItem struct {
		k      int
		sig    string
		bar    *colarspb.BatchArrowRecords
		in     []*Node
		items  int
		nodump bool
	}
	var lagQ []lagItem
	lagDecode := func(it lagItem) {
		out, n, doc, dmsg, _ := decode(c, it.sig, it.bar)
		if capt != nil {
			capt.Oc = append(capt.Oc, doc)
			capt.Out = append(capt.Out, out)
		}
		dev := map[string]any{"k": it.k, "sig": it.sig, "oc": doc, "err": dmsg, "n": n, "l": []any{}, "flag": boolp(healthy),
			"a": 1, "b": it.items, "x": digestNodes(out), "bid": 0, "in": it.in}
		if !it.nodump {
			dev["out"] = out
		}
		em.Emit(tr, "Decode", dev)
		if doc != "ok" {
			healthy = false
		}
	}
	for k, bs := range st.Batches {
		sig := st.Signal
		if bs.Signal != "" {
			sig = bs.Signal
		}
		var in any
		if bs.Resend > 0 && k-bs.Resend >= 0 && k-bs.Resend < len(inputs) {
			in = inputs[k-bs.Resend]
		} else {
			in = makeInput(sig, bs)
		}
		switch in.(type) { // a re-sent input keeps its own signal
		case ptrace.Traces:
			sig = "traces"
		case plog.Logs:
			sig = "logs"
		case pmetric.Metrics:
			sig = "metrics"
		}
		inputs = append(inputs, in)
		if bs.Stats {
			func() {
				defer func() { _ = recover() }()
				takeStats(p, &pend)
			}()
		}
		before := marshal(in)
		var inNodes []*Node
		if !bs.NoDump {
			inNodes = dumpAny(in)
		} else {
			inNodes = []*Node{}
		}
		ob.evs = nil
		ob.onRecord = nil
		if bs.AllocFail > 0 {
			seen := 0
			ob.onRecord = func() {
				seen++
				if seen >= bs.AllocFail {
					fa.fail = true
				}
			}
		}
		bar, oc, msg := encode(p, in)
		fa.fail = false
		after := marshal(in)
		ev := map[string]any{"k": k, "sig": sig, "oc": oc, "err": msg, "n": itemCount(in), "in": inNodes,
			"flag": boolp(string(before) == string(after)), "obs": ob.evs, "a": boolp(bs.NoDump), "x": bs.Gen}
		if ob.evs == nil {
			ev["obs"] = []any{}
		}
		retiredPrev := retired
		if oc == "ok" && bar != nil {
			for _, pl := range bar.ArrowPayloads {
				emitted = append(emitted, emittedPayload{b: pl.Record, sum: sha256.Sum256(pl.Record)})
			}
			ev["bid"] = int(bar.BatchId)
			pls := []any{}
			tabs, tabsOK := []any{}, em.WW != nil && !st.NoWire && !bs.NoDump && len(inNodes) > 0 && len(inNodes) <= wireTabMaxRows
			for _, pl := range bar.ArrowPayloads {
				pt := pl.Type.String()
				if !st.NoWire {
					pv := wire.Add(pl.SchemaId, pt, pl.Record)
					pls = append(pls, pv)
					if pv.tab == nil || pv.Indep != "ok" {
						tabsOK = false
					} else {
						tabs = append(tabs, map[string]any{"pt": pt, "rows": pv.tab})
					}
				} else {
					pls = append(pls, PayloadView{Sid: pl.SchemaId, Ptype: pt, Bytes: len(pl.Record), Msgs: []string{}, Rows: -1, Indep: "skipped", Dicts: [][]any{}})
				}
				if cur, ok := sidOf[pt]; ok && cur != pl.SchemaId {
					retired = cur
				}
				sidOf[pt] = pl.SchemaId
			}
			ev["pl"] = pls
			if tabsOK {
				em.EmitWire(tr, k, sig, inNodes, tabs)
			}
		}
		em.Emit(tr, "Encode", ev)
		if em.SW != nil && HaveProjection && st.Lag == 0 {
			sev := map[string]any{"k": k, "sig": sig, "oc": oc, "rows": boolp(itemCount(in) > 0)}
			if oc == "ok" && bar != nil {
				spl := []any{}
				for _, pl := range bar.ArrowPayloads {
					spl = append(spl, []any{sidNum(pl.SchemaId), pl.Type.String(), boolp(hasSchemaMsg(pl.Record)), boolp(len(pl.Record) > 0)})
				}
				sev["pl"] = spl
				sev["n"] = int(bar.BatchId)
			}
			if oc == "panic" {
				statsOff = true // what a crashed call counted is not specified
			}
			if oc != "panic" {
				sev["ps"] = producerProjection(p)
				sev["next"] = producerNext(p)
				// the producer's own counters since the previous Encode event (every second stream: reading them
				// resets them, and histories in which nobody reads them must stay covered too)
				if tr%2 == 1 && !statsOff {
					takeStats(p, &pend)
					sev["st"] = []any{pend[0], pend[1], pend[2], pend[3], pend[4]}
					pend = [5]int{}
				}
			}
			em.EmitStream(tr, "Encode", sev)
		}
		if oc != "ok" || bar == nil {
			// a refused or crashed encode ends what the round-trip properties speak about
			healthy = healthy && oc == "error"
			if capt != nil {
				capt.Oc = append(capt.Oc, "enc-"+oc)
				capt.Out = append(capt.Out, []*Node{})
			}
			continue
		}
		if st.NoDecode {
			continue
		}
		if st.Lag > 0 {
			lagQ = append(lagQ, lagItem{k: k, sig: sig, bar: bar, in: inNodes, items: itemCount(in), nodump: bs.NoDump})
			for len(lagQ) > st.Lag {
				lagDecode(lagQ[0])
				lagQ = lagQ[1:]
			}
			continue
		}
		// C14 ladder: the same batch to consumers with increasing limits
		for _, ld := range ladders {
			if ld.dead {
				continue
			}
			ld.rec.max = ld.rec.cur
			// a batch that continues a sub-stream this consumer has a hole in (it refused an earlier batch of it) is
			// an IPC stream with missing messages: outside the domain, as for C07
			// (Consume walks the payloads in order and stops at the first reader that is in its sticky error state: a
			// batch whose first affected payload belongs to such a reader never reaches the readers with holes and
			// is judged; one that reaches a reader with a hole first is not.)
			state := boolp(ld.refused)
			before := consumerStates(ld.c)
			for _, pl := range bar.ArrowPayloads {
				if HaveProjection && before[pl.SchemaId] == "err" {
					if ld.sticky[pl.SchemaId] {
						state = 3 // stopped by a reader that refused for memory: it must keep refusing recognisably
					}
					break
				}
				if ld.gapped[pl.SchemaId] {
					state = 2
					break
				}
			}
			out, n, doc, dmsg, isLimit := decode(ld.c, sig, proto.Clone(bar).(*colarspb.BatchArrowRecords))
			lim := ld.limit
			if lim > math.MaxInt32 {
				lim = math.MaxInt32
			}
			mx := ld.rec.max
			if mx > math.MaxInt32 {
				mx = math.MaxInt32
			}
			lev := map[string]any{"k": k, "sig": sig, "oc": doc, "err": dmsg, "n": n, "a": int(lim),
				"b": int(mx), "flag": boolp(isLimit), "bid": state}
			if !bs.NoDump {
				lev["out"] = out
			}
			em.Emit(tr, "Ladder", lev)
			if doc != "ok" {
				// keep feeding the consumer: every later batch must again be decoded completely or
				// refused with the recognisable error; only its telemetry is no longer comparable
				ld.refused = true
				// the payloads after the one whose reader raised the error were never handed to their readers
				after := consumerStates(ld.c)
				failed := -1
				if HaveProjection {
					for i, pl := range bar.ArrowPayloads {
						if st := after[pl.SchemaId]; st == "err" || st == "unopened" {
							failed = i
							break
						}
					}
				}
				for i, pl := range bar.ArrowPayloads {
					if !HaveProjection || (failed >= 0 && i > failed) {
						ld.gapped[pl.SchemaId] = true
					}
				}
				if failed >= 0 && isLimit && after[bar.ArrowPayloads[failed].SchemaId] == "err" {
					ld.sticky[bar.ArrowPayloads[failed].SchemaId] = true
				}
			}
		}
		toDecode := bar
		faults := []any{}
		if len(bs.Faults) > 0 {
			toDecode, faults = applyFaults(bar, bs.Faults, retiredPrev)
		}
		// A sub-stream is "gapped" once the consumer has not been given exactly the producer's
		// bytes for it (payload dropped, emptied, duplicated, sent under another schema id, or
		// foreign bytes sent under its id): later payloads of that schema id are an IPC stream
		// with a hole, which is outside the domain of C07.
		tainted := false
		// ... unless the consumer holds no opened reader for it: a reader that never opened (a failed open, C07's
		// "nil reader after a failed open" history) or none at all has no state a hole could corrupt
		opened := map[string]bool{}
		if HaveProjection {
			for _, sid := range consumerOpenIDs(c) {
				opened[sid] = true
			}
		}
		for _, pl := range bar.ArrowPayloads {
			if gapped[pl.SchemaId] && (!HaveProjection || opened[pl.SchemaId]) {
				tainted = true
			}
		}
		if len(faults) > 0 {
			for _, pl := range bar.ArrowPayloads {
				cnt := 0
				for _, q := range toDecode.ArrowPayloads {
					if q.SchemaId == pl.SchemaId && len(q.Record) > 0 && string(q.Record) == string(pl.Record) {
						cnt++
					}
				}
				if cnt != 1 {
					gapped[pl.SchemaId] = true
				}
			}
			for _, q := range toDecode.ArrowPayloads {
				own := false
				for _, pl := range bar.ArrowPayloads {
					if q.SchemaId == pl.SchemaId && string(q.Record) == string(pl.Record) {
						own = true
					}
				}
				if !own {
					gapped[q.SchemaId] = true
				}
			}
		}
		// "a main record that was present in the batch": the producer's main record, still labelled as
		// the main type (a related record relabelled as main is not the telemetry's main record)
		mainPresent := false
		var origMain []byte
		for _, pl := range bar.ArrowPayloads {
			if pl.Type.String() == mainType(sig) {
				origMain = pl.Record
			}
		}
		// (under whatever label: a main record that was relabelled is still in the batch, and the unchanged consumer
		// refuses every such batch - as a duplicate, as a record of the wrong shape, or as an unknown type)
		for _, pl := range toDecode.ArrowPayloads {
			if len(pl.Record) > 0 && len(origMain) > 0 && string(pl.Record) == string(origMain) {
				mainPresent = true
			}
		}
		// Splice: a payload handed over under a schema id whose reader already holds another sub-stream's schema (the
		// reader existed before this batch, or an earlier payload of this batch opened it) makes that reader read IPC
		// bytes of a foreign sub-stream - where C07's domain ends ("faults that splice Arrow IPC bytes between
		// different sub-streams").  Stream.tla has the exact rule (`judged`); this is its conservative approximation.
		spliced := false
		if len(faults) > 0 {
			have := map[string]bool{}
			if HaveProjection {
				for _, sid := range consumerIDs(c) {
					have[sid] = true
				}
			} else {
				for sid := range delivered {
					have[sid] = true
				}
			}
			for _, q := range toDecode.ArrowPayloads {
				own := ""
				for _, pl := range bar.ArrowPayloads {
					if len(q.Record) > 0 && string(q.Record) == string(pl.Record) && (own == "" || pl.SchemaId == q.SchemaId) {
						own = pl.SchemaId
					}
				}
				if own != "" && own != q.SchemaId && have[q.SchemaId] {
					spliced = true
				}
				have[q.SchemaId] = true
			}
		}
		for _, q := range toDecode.ArrowPayloads {
			delivered[q.SchemaId] = true
		}
		if cnt != nil {
			cntSeen = [2]int64{cnt.records.n, cnt.resets.n}
		}
		out, n, doc, dmsg, _ := decode(c, sig, toDecode)
		if capt != nil {
			capt.Oc = append(capt.Oc, doc)
			capt.Out = append(capt.Out, out)
		}
		domain := boolp(tainted)
		if spliced {
			domain = 2
		}
		dev := map[string]any{"k": k, "sig": sig, "oc": doc, "err": dmsg, "n": n, "l": faults,
			"flag": boolp(healthy), "a": boolp(mainPresent), "b": itemCount(in), "x": digestNodes(out), "bid": domain}
		if doc != "ok" {
			// a rejected batch may have stopped before feeding its later payloads to their readers
			for _, pl := range bar.ArrowPayloads {
				gapped[pl.SchemaId] = true
			}
		}
		if !bs.NoDump {
			dev["out"] = out
		}
		em.Emit(tr, "Decode", dev)
		if em.SW != nil && HaveProjection {
			fp := []any{}
			for _, q := range toDecode.ArrowPayloads {
				orig := -1 // index of the producer's payload these bytes are (emptied: the payload at the same schema id / position)
				for i, pl := range bar.ArrowPayloads {
					if len(q.Record) > 0 && string(q.Record) == string(pl.Record) && (orig < 0 || q.SchemaId == pl.SchemaId) {
						orig = i
						if q.SchemaId == pl.SchemaId {
							break
						}
					}
				}
				fp = append(fp, []any{sidNum(q.SchemaId), q.Type.String(), orig, boolp(len(q.Record) == 0)})
			}
			sev := map[string]any{"k": k, "sig": sig, "oc": doc, "n": n, "fp": fp, "x": strings.Join(toStrings(faults), " ")}
			if doc != "panic" {
				sev["cs"] = consumerProjection(c)
			}
			if cnt != nil {
				sev["st"] = []any{cnt.records.n - cntSeen[0], cnt.resets.n - cntSeen[1]}
			}
			em.EmitStream(tr, "Decode", sev)
		}
		if len(faults) > 0 || doc != "ok" {
			healthy = false
		}
	}
	for _, it := range lagQ {
		lagDecode(it)
	}
	cerr := ""
	func() {
		defer func() {
			if x := recover(); x != nil {
				cerr = short(fmt.Sprintf("panic: %v", x))
			}
		}()
		if err := p.Close(); err != nil {
			cerr = short(err.Error())
		}
	}()
	bal := pool.CurrentAlloc()
	// an emitted payload is a value of its own: its bytes must still be what they were when the batch was returned
	changed := 0
	for _, ep := range emitted {
		if sha256.Sum256(ep.b) != ep.sum {
			changed++
		}
	}
	em.Emit(tr, "Close", map[string]any{"a": bal, "err": cerr, "n": changed})
	if tr%3 == 0 {
		// Close is also called a second time (an explicit Close on the happy path plus a deferred one is ordinary use):
		// whatever a producer gives back to shared facilities must not be given back twice
		func() {
			defer func() { _ = recover() }()
			_ = p.Close()
		}()
		if b2 := pool.CurrentAlloc(); b2 != bal {
			em.Emit(tr, "Close", map[string]any{"a": b2, "err": "", "n": 0})
		}
	}
	func() {
		defer func() { _ = recover() }()
		_ = c.Close()
		for _, ld := range ladders {
			_ = ld.c.Close()
		}
	}()
	em.Emit(tr, "End", map[string]any{"oc": "ok"})
}
