package otap

// wiretab.go: what an independent Arrow reader sees in the id / parent-id
// columns of a (small) record on the wire, for OtapWire.tla.  Dumb on purpose:
// raw column values, nulls, and for every row the token the protocol's
// "delta within a group" rule compares (attribute key + scalar value, event
// name, link trace id, exemplar value).  Decoding the deltas, the referential
// structure and the comparison with the input live in the specification.

import (
	"encoding/hex"
	"fmt"
	"math"

	"github.com/apache/arrow-go/v18/arrow"
	"github.com/apache/arrow-go/v18/arrow/array"
	"go.opentelemetry.io/collector/pdata/pcommon"

	"github.com/open-telemetry/otel-arrow/pkg/otel/common"
)

const wireTabMaxRows = 48

// cell returns the value at row i of a column, looking through dictionaries.
// ok=false: null (or an array kind the tables of interest do not use).
func cell(a arrow.Array, i int) (v any, ok bool) {
	if a == nil || i >= a.Len() || a.IsNull(i) {
		return nil, false
	}
	switch c := a.(type) {
	case *array.Dictionary:
		return cell(c.Dictionary(), c.GetValueIndex(i))
	case *array.Uint8:
		return uint64(c.Value(i)), true
	case *array.Uint16:
		return uint64(c.Value(i)), true
	case *array.Uint32:
		return uint64(c.Value(i)), true
	case *array.Uint64:
		return c.Value(i), true
	case *array.Int32:
		return int64(c.Value(i)), true
	case *array.Int64:
		return c.Value(i), true
	case *array.Float64:
		return c.Value(i), true
	case *array.Boolean:
		return c.Value(i), true
	case *array.String:
		return c.Value(i), true
	case *array.Binary:
		return append([]byte{}, c.Value(i)...), true
	case *array.FixedSizeBinary:
		return append([]byte{}, c.Value(i)...), true
	}
	return nil, false
}

func colByName(rec arrow.Record, name string) arrow.Array {
	for c := 0; c < int(rec.NumCols()); c++ {
		if rec.Schema().Field(c).Name == name {
			return rec.Column(c)
		}
	}
	return nil
}

func structField(a arrow.Array, name string) arrow.Array {
	s, ok := a.(*array.Struct)
	if !ok {
		return nil
	}
	st := s.DataType().(*arrow.StructType)
	for i := 0; i < s.NumField(); i++ {
		if st.Field(i).Name == name {
			return s.Field(i)
		}
	}
	return nil
}

// wireNull marks a null or absent cell (OtapWire.tla: NULL).
const wireNull = -2147483647

// rawU: the raw unsigned cell; 32-bit columns are rendered as signed two's complement (TLC integers are 32 bit wide,
// and a delta that wraps below zero is a small negative number), narrower ones as they are.
func rawU(a arrow.Array, i int) int {
	v, ok := cell(a, i)
	if !ok {
		return wireNull
	}
	u, ok := v.(uint64)
	if !ok {
		return wireNull
	}
	if u > math.MaxUint16 {
		return int(int32(uint32(u)))
	}
	return int(u)
}

// attrCell renders the value of an attribute row in the form dump.go uses for inputs, and the token of the
// parent-id group rule ("" = a value that is never equal to another one: lists, maps, unset values, NaN).
func attrCell(rec arrow.Record, i int) (key string, val V, tok string, ok bool) {
	kv, okk := cell(colByName(rec, "key"), i)
	tv, okt := cell(colByName(rec, "type"), i)
	if !okk || !okt {
		return "", nil, "", false
	}
	key = kv.(string)
	t := pcommon.ValueType(tv.(uint64))
	val = None()
	switch t {
	case pcommon.ValueTypeStr:
		if x, ok := cell(colByName(rec, "str"), i); ok {
			val = S(x.(string))
		} else {
			val = S("")
		}
		tok = "s" + val[1].(string)
	case pcommon.ValueTypeInt:
		var n int64
		if x, ok := cell(colByName(rec, "int"), i); ok {
			n = x.(int64)
		}
		val = I(n)
		tok = "i" + val[1].(string)
	case pcommon.ValueTypeDouble:
		var f float64
		if x, ok := cell(colByName(rec, "double"), i); ok {
			f = x.(float64)
		}
		val = D(f)
		if !math.IsNaN(f) {
			if f == 0 {
				tok = "d0"
			} else {
				tok = "d" + val[1].(string)
			}
		}
	case pcommon.ValueTypeBool:
		var b bool
		if x, ok := cell(colByName(rec, "bool"), i); ok {
			b = x.(bool)
		}
		val = B(b)
		tok = "b" + val[1].(string)
	case pcommon.ValueTypeBytes:
		var bs []byte
		if x, ok := cell(colByName(rec, "bytes"), i); ok {
			bs = x.([]byte)
		}
		val = X(bs)
		tok = "x" + val[1].(string)
	case pcommon.ValueTypeSlice, pcommon.ValueTypeMap:
		if x, ok := cell(colByName(rec, "ser"), i); ok {
			pv := pcommon.NewValueEmpty()
			if err := common.Deserialize(x.([]byte), pv); err == nil {
				val = Val(pv)
			} else {
				val = V{"u", "cbor-error", ""}
			}
		}
	}
	if tok != "" {
		tok = str(key) + "|" + tok
	}
	return key, val, tok, true
}

// wireTab renders the id / parent-id view of one record.
func wireTab(ptype string, rec arrow.Record) []any {
	n := int(rec.NumRows())
	idc, pidc := colByName(rec, "id"), colByName(rec, "parent_id")
	resc, scc := colByName(rec, "resource"), colByName(rec, "scope")
	var ridc, sidc arrow.Array
	if resc != nil {
		ridc = structField(resc, "id")
	}
	if scc != nil {
		sidc = structField(scc, "id")
	}
	isAttrs := len(ptype) > 6 && ptype[len(ptype)-6:] == "_ATTRS"
	rows := make([]any, 0, n)
	for i := 0; i < n; i++ {
		r := map[string]any{"id": wireNull, "pid": wireNull, "rid": wireNull, "sid": wireNull, "tok": "", "kv": []any{}}
		if idc != nil {
			r["id"] = rawU(idc, i)
		}
		if pidc != nil {
			r["pid"] = rawU(pidc, i)
		}
		if ridc != nil {
			r["rid"] = rawU(ridc, i)
		}
		if sidc != nil {
			r["sid"] = rawU(sidc, i)
		}
		switch {
		case isAttrs:
			if k, v, tok, ok := attrCell(rec, i); ok {
				r["tok"] = tok
				r["kv"] = []any{str(k), v}
			}
		case ptype == "SPAN_EVENTS":
			name := ""
			if x, ok := cell(colByName(rec, "name"), i); ok {
				name = x.(string)
			}
			r["tok"] = "n" + str(name)
		case ptype == "SPAN_LINKS":
			if x, ok := cell(colByName(rec, "trace_id"), i); ok {
				r["tok"] = "t" + hex.EncodeToString(x.([]byte))
			} else {
				r["tok"] = "t"
			}
		case len(ptype) > 10 && ptype[len(ptype)-10:] == "_EXEMPLARS":
			if x, ok := cell(colByName(rec, "int_value"), i); ok {
				r["tok"] = fmt.Sprintf("i%d", x.(int64))
			} else if x, ok := cell(colByName(rec, "double_value"), i); ok {
				f := x.(float64)
				switch {
				case math.IsNaN(f):
					r["tok"] = "" // never equal to the previous value
				case f == 0:
					r["tok"] = "d0"
				default:
					r["tok"] = fmt.Sprintf("d%016x", math.Float64bits(f))
				}
			} else {
				r["tok"] = "~" // no value: a plain delta that leaves the remembered value alone
			}
		}
		rows = append(rows, r)
	}
	return rows
}
