---------------------------- MODULE BPTelemetry ----------------------------
(***************************************************************************)
(* The batch processor's own instruments as functions of the modelled      *)
(* steps (growth plan 3.3 item 1).  A deterministic monitor over the hook  *)
(* and sink events of every recorded execution; at the end of a scenario   *)
(* the harness reads the processor's MeterProvider once (event Telemetry:  *)
(* a = processor_batch_batch_size_trigger_send, b = ..._timeout_trigger_   *)
(* send, d / g = count / sum of ..._batch_send_size, h = ..._metadata_     *)
(* cardinality) and the values must be what the steps say:                 *)
(*   - a batch is counted when, and only when, its export succeeded        *)
(*     (sendItems records after a nil error), once, under the trigger its  *)
(*     SendItems step carried (size / timeout; the shutdown drain counts   *)
(*     as a timeout), with the number of items handed to the next consumer;*)
(*   - the cardinality is the number of admitted combinations (one when    *)
(*     metadata_keys is not configured).                                   *)
(* Telemetry is not part of any listed property: a deviation is DRIFT.     *)
(***************************************************************************)
EXTENDS Integers, Sequences, FiniteSets, TLC, Json

CONSTANT TraceFile
Trace == ndJsonDeserialize(TraceFile)

VARIABLES i, trig, size, okE, admitted, multi, drift, judged
vars == <<i, trig, size, okE, admitted, multi, drift, judged>>
Empty == [x \in {} |-> 0]

Init == i = 1 /\ trig = Empty /\ size = Empty /\ okE = {} /\ admitted = {} /\ multi = 0 /\ drift = {} /\ judged = 0

Sum(f, S) == LET RECURSIVE Go(_) Go(T) == IF T = {} THEN 0 ELSE LET x == CHOOSE y \in T : TRUE IN f[x] + Go(T \ {x}) IN Go(S)

Next ==
  /\ i <= Len(Trace)
  /\ i' = i + 1
  /\ LET ev == Trace[i] IN
     CASE ev.ev = "Begin" ->
            /\ trig' = Empty /\ size' = Empty /\ okE' = {} /\ admitted' = {} /\ multi' = ev.multi
            /\ UNCHANGED <<drift, judged>>
       [] ev.ev = "SendItems" ->
            /\ trig' = (ev.e :> ev.k) @@ trig /\ size' = (ev.e :> ev.b) @@ size
            /\ UNCHANGED <<okE, admitted, multi, drift, judged>>
       [] ev.ev = "ExportEnd" /\ ev.k = "ok" ->
            /\ okE' = okE \cup {ev.e}
            /\ UNCHANGED <<trig, size, admitted, multi, drift, judged>>
       [] ev.ev = "AdmitNew" ->
            /\ admitted' = admitted \cup {ev.s}
            /\ UNCHANGED <<trig, size, okE, multi, drift, judged>>
       [] ev.ev = "Telemetry" ->
            LET known == okE \cap DOMAIN trig       \* exports whose SendItems step was seen (every one, unless a hook moved)
                nSize == Cardinality({e \in known : trig[e] = "size"})
                nTime == Cardinality({e \in known : trig[e] = "timeout"})
                card == IF multi = 1 THEN Cardinality(admitted) ELSE 1
                bad == (IF ev.k # "ok" THEN {"collect"} ELSE {})
                       \cup (IF known # okE THEN {"export-without-SendItems"} ELSE {})
                       \cup (IF ev.a # nSize THEN {"size_trigger_send"} ELSE {})
                       \cup (IF ev.b # nTime THEN {"timeout_trigger_send"} ELSE {})
                       \cup (IF ev.d # Cardinality(okE) THEN {"batch_send_size.count"} ELSE {})
                       \cup (IF ev.g # Sum(size, known) THEN {"batch_send_size.sum"} ELSE {})
                       \cup (IF ev.h # card THEN {"metadata_cardinality"} ELSE {})
            IN /\ drift' = drift \cup {<<ev.tr, ev.seq, b>> : b \in bad}
               /\ judged' = judged + 1
               /\ UNCHANGED <<trig, size, okE, admitted, multi>>
       [] OTHER -> UNCHANGED <<trig, size, okE, admitted, multi, drift, judged>>
Spec == Init /\ [][Next]_vars
Report == i <= Len(Trace) \/ PrintT(<<"BPTEL-RESULT", Len(Trace), judged, ToJson(drift)>>)
=============================================================================
