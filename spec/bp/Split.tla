------------------------------- MODULE Split -------------------------------
(* Exhaustive enumeration over SplitFn (see there): every tree within the  *)
(* bounds x every size; invariants = C05 / C09 on the specification's own  *)
(* result; Emit prints the cases for the implementation run.               *)
EXTENDS SplitFn
VARIABLES shape, size, res
Init == /\ shape \in TopShapes
        /\ size \in 1..(SumCount(Tree(shape), Depth) - 1)
        /\ res = Split(Tree(shape), size)
Next == UNCHANGED <<shape, size, res>>
Spec == Init /\ [][Next]_<<shape, size, res>>

Total == SumCount(Tree(shape), Depth)
\* C05: dest followed by what is kept is the input, item for item, in order
Partition == ItemsOf(res[1], Depth) \o ItemsOf(res[2], Depth) = ItemsOf(Tree(shape), Depth)
\* C09: the outgoing fragment has exactly `size` items (never more than send_batch_max_size, never empty)
ExactSize == SumCount(res[1], Depth) = size /\ SumCount(res[2], Depth) = Total - size
\* C05: every fragment keeps the identity of its containers
Identity == (\A k \in DOMAIN res[1] : PathsOk(res[1][k], Depth)) /\ (\A k \in DOMAIN res[2] : PathsOk(res[2][k], Depth))
Emit == PrintT(<<"CASE", ToJson([shape |-> shape, size |-> size])>>)
=============================================================================
