------------------------------ MODULE BPTrace ------------------------------
(***************************************************************************)
(* Trace specification: binds BatchProcessor.tla to the implementation.    *)
(* Every event recorded by the hooks of batch_processor.go (build tag      *)
(* verif) and by the harness must be explained by the action of            *)
(* BatchProcessor that bears its name, with the logged fields pinning the  *)
(* primed variables.  Lock-free hand-overs (channel send vs. receive,      *)
(* response send vs. receive) are logged on both sides; whichever side is  *)
(* logged first performs the model step, the other one stutters.  Virtual  *)
(* time may only pass when the model is not Busy (TTime).                  *)
(* Many executions are concatenated; "Begin" resets the state.             *)
(***************************************************************************)
EXTENDS BPProps, Json

CONSTANT TraceFile
Trace == ndJsonDeserialize(TraceFile)

VARIABLES l,      \* next event
          emap    \* harness export id -> index in exp
tvars == <<vars, l, emap>>

Ev(name) == l <= Len(Trace) /\ Trace[l].ev = name /\ Trace[l].t \div 100 <= now
Adv == l' = l + 1
E == Trace[l]
Same == UNCHANGED vars
KeepE == UNCHANGED emap
TickMs == 100

\* ---- reset at the beginning of each recorded execution
HdrCallers(h) == {h.l[j][1] : j \in DOMAIN h.l}
Lookup(h, c, k) == LET j == CHOOSE j \in DOMAIN h.l : h.l[j][1] = c IN h.l[j][k]
TReset ==
  /\ l <= Len(Trace) /\ Trace[l].ev = "Begin"
  /\ LET h == Trace[l] IN
     /\ n' = [c \in Callers |-> IF c \in HdrCallers(h) THEN Lookup(h, c, 2) ELSE 0]
     /\ cx' = [c \in Callers |-> IF c \in HdrCallers(h) THEN Lookup(h, c, 3) ELSE CHOOSE x \in Ctxs : TRUE]
     /\ cb' = [c \in Callers |-> IF c \in HdrCallers(h) THEN Lookup(h, c, 4) ELSE CHOOSE s \in Combos : TRUE]
     /\ rem' = [c \in Callers |-> IF c \in HdrCallers(h) THEN Lookup(h, c, 2) ELSE 0]
  /\ pc' = [c \in Callers |-> "idle"]
  /\ ret' = [c \in Callers |-> "none"]
  /\ errs' = [c \in Callers |-> {}]
  /\ resp' = [c \in Callers |-> <<>>]
  /\ preLimitOk' = [c \in Callers |-> TRUE]
  /\ ctxDone' = [x \in Ctxs |-> FALSE]
  /\ now' = 0 /\ shut' = "no"
  /\ stored' = IF Multi THEN {} ELSE Combos
  /\ size' = 0
  /\ st' = [s \in Combos |-> IF Multi THEN "off" ELSE "starting"]
  /\ chan' = [s \in Combos |-> <<>>]
  /\ cnt' = [s \in Combos |-> 0]
  /\ pending' = [s \in Combos |-> <<>>]
  /\ sentF' = [s \in Combos |-> FALSE]
  /\ deadline' = [s \in Combos |-> -1]
  /\ cur' = [s \in Combos |-> <<>>]
  /\ curSent' = [s \in Combos |-> 0]
  /\ curTrig' = [s \in Combos |-> "none"]
  /\ sem' = 0 /\ exp' = <<>>
  /\ accAt' = [c \in Callers |-> -1]
  /\ accBeforeShut' = {}
  /\ emap' = [x \in {} |-> 0]
  /\ Adv

\* virtual time passes up to the time stamp of the next event -- only at quiescence
TTime ==
  /\ l <= Len(Trace) /\ Trace[l].ev # "Begin"
  /\ Trace[l].t \div 100 > now
  /\ ~Busy
  /\ now' = Trace[l].t \div 100
  /\ UNCHANGED <<callerVars, ctxDone, shut, admVars, shardVars, expVars, histVars, l, emap>>

Skip(names) == l <= Len(Trace) /\ Trace[l].ev \in names /\ Trace[l].t \div 100 <= now /\ Same /\ KeepE /\ Adv

\* ---- callers
\* the sync.Map.Load is lock-free: it may have missed before another caller's store that is logged earlier
TAdmitMiss ==
  /\ Ev("AdmitMiss") /\ pc[E.c] = "idle" /\ shut = "no"
  /\ pc' = [pc EXCEPT ![E.c] = "missed"]
  /\ UNCHANGED <<n, cx, cb, ret, rem, errs, resp, preLimitOk, envVars, admVars, shardVars, expVars, histVars>>
  /\ KeepE /\ Adv
TAdmitNew == Ev("AdmitNew") /\ AdmitSlow(E.c) /\ pc'[E.c] = "try" /\ size' = E.a /\ size' = size + 1
             /\ ShardOf(E.c) = E.s /\ KeepE /\ Adv
TAdmitLost == Ev("AdmitLost") /\ AdmitSlow(E.c) /\ pc'[E.c] = "try" /\ size' = size /\ size = E.a /\ KeepE /\ Adv
TAdmitReject == Ev("AdmitReject") /\ AdmitSlow(E.c) /\ ret'[E.c] = "toomany" /\ size = E.a /\ KeepE /\ Adv
\* singleton shard or sync.Map hit.  The hit may be on a shard whose creator has stored it but not yet
\* logged its AdmitNew (the store precedes the hook), so `stored` is not consulted here.
TEnqueueTry ==
  /\ Ev("EnqueueTry")
  /\ \/ /\ pc[E.c] = "idle" /\ shut = "no"
        /\ pc' = [pc EXCEPT ![E.c] = "try"]
        /\ UNCHANGED <<n, cx, cb, ret, rem, errs, resp, preLimitOk, envVars, admVars, shardVars, expVars, histVars>>
     \/ pc[E.c] = "try" /\ Same
  /\ n[E.c] = E.a /\ (E.s # "" => ShardOf(E.c) = E.s)
  /\ KeepE /\ Adv
\* The send is logged after it happened; by then the shard may already have taken an earlier item out
\* of the channel without having logged its ProcessItem yet, so the channel capacity is not consulted
\* here (the order and the content of the channel still are, at the receiver's event).
SendAnyCap(c) ==
  /\ pc[c] = "try" /\ n[c] > 0
  /\ chan' = [chan EXCEPT ![ShardOf(c)] = Append(@, c)]
  /\ pc' = [pc EXCEPT ![c] = IF Early THEN "returned" ELSE "waiting"]
  /\ ret' = [ret EXCEPT ![c] = IF Early THEN "nil" ELSE @]
  /\ accAt' = [accAt EXCEPT ![c] = now]
  /\ accBeforeShut' = IF shut = "no" THEN accBeforeShut \cup {c} ELSE accBeforeShut
  /\ UNCHANGED <<n, cx, cb, rem, errs, resp, preLimitOk, envVars, admVars,
                 st, cnt, pending, sentF, deadline, cur, curSent, curTrig, expVars>>
TEnqueueSend ==
  /\ Ev("EnqueueSend")
  /\ \/ SendAnyCap(E.c)
     \/ pc[E.c] # "try" /\ accAt[E.c] >= 0 /\ Same              \* already performed by the receiver's event
  /\ KeepE /\ Adv
TEnqueueCtxDone == Ev("EnqueueCtxDone") /\ EnqueueCtxDone(E.c) /\ KeepE /\ Adv
TWaitCtxDone == Ev("WaitCtxDone") /\ WaitCtxDone(E.c) /\ rem[E.c] = E.a /\ KeepE /\ Adv

\* Responses.  The response channel is lock-free: the order in which several export goroutines'
\* sends and the caller's receives are logged is not the order in which they happened, so the
\* trace specification treats resp[c] as a bag without capacity (the counts, the failure flags and
\* the caller's arithmetic are still checked exactly).
RecvStep(c, r, rest) ==
  LET e2 == IF r.fail THEN errs[c] \cup {r.e} ELSE errs[c]
      nr == rem[c] - r.count
  IN /\ pc[c] = "waiting"
     /\ resp' = [resp EXCEPT ![c] = rest]
     /\ errs' = [errs EXCEPT ![c] = e2]
     /\ rem' = [rem EXCEPT ![c] = nr]
     /\ pc' = [pc EXCEPT ![c] = IF nr = 0 THEN "returned" ELSE @]
     /\ ret' = [ret EXCEPT ![c] = IF nr = 0 THEN (IF e2 = {} THEN "nil" ELSE "fail") ELSE @]
Without(q, j) == SubSeq(q, 1, j - 1) \o SubSeq(q, j + 1, Len(q))
TRespRecv ==
  /\ Ev("RespRecv")
  /\ LET c == E.c IN
     \/ \E j \in DOMAIN resp[c] :
           /\ resp[c][j].count = E.a /\ resp[c][j].fail = (E.b = 1)
           /\ RecvStep(c, resp[c][j], Without(resp[c], j))
           /\ UNCHANGED <<n, cx, cb, preLimitOk, envVars, admVars, shardVars, expVars, histVars>>
     \/ \E e \in DOMAIN exp :                                  \* the sender's RespDelivered event is still to come
           /\ exp[e].st = "resp" /\ exp[e].i <= Len(exp[e].tb) /\ RespTarget(e).c = c
           /\ RespTarget(e).k = E.a /\ exp[e].fail = (E.b = 1)
           /\ RecvStep(c, [e |-> e, count |-> RespTarget(e).k, fail |-> exp[e].fail], resp[c])
           /\ exp' = [exp EXCEPT ![e].i = @ + 1]
           /\ UNCHANGED <<n, cx, cb, preLimitOk, envVars, admVars, shardVars, sem, histVars>>
  /\ KeepE /\ Adv

RetOk(c, k) ==
  \/ ret[c] = k
  \/ ret[c] = "fail" /\ k \in {"ctx", "failctx"} /\ \E e \in errs[c] : exp[e].ctxerr   \* the export failed with the context error
  \/ ret[c] = "failctx" /\ k = "ctx" /\ \A e \in errs[c] : exp[e].ctxerr
TReturn ==
  /\ Ev("Return")
  /\ \/ pc[E.c] = "returned" /\ RetOk(E.c, E.k) /\ Same
     \/ pc[E.c] = "try" /\ n[E.c] = 0 /\ ReturnEmpty(E.c) /\ E.k = "nil"
     \/ /\ pc[E.c] = "idle" /\ n[E.c] = 0 /\ E.k = "nil"                 \* empty request, shard known: no hook at all
        /\ pc' = [pc EXCEPT ![E.c] = "returned"] /\ ret' = [ret EXCEPT ![E.c] = "nil"]
        /\ UNCHANGED <<n, cx, cb, rem, errs, resp, preLimitOk, envVars, admVars, shardVars, expVars, histVars>>
  /\ KeepE /\ Adv

\* ---- shard loop
TLoopStart == Ev("LoopStart") /\ LoopStart(E.s) /\ ((deadline'[E.s] >= 0) <=> (E.a = 1)) /\ KeepE /\ Adv

RemoveFirst(q, c) == LET j == CHOOSE j \in DOMAIN q : q[j] = c /\ \A k \in 1..(j - 1) : q[k] # c
                     IN SubSeq(q, 1, j - 1) \o SubSeq(q, j + 1, Len(q))
\* processItem of caller c: the receive (the channel order of concurrent senders is the real one,
\* not the order of their later EnqueueSend events), possibly composed with the not yet logged send
TRecvOf(s, c) ==
  /\ st[s] \in {"sel", "dsel"}
  /\ LET sendNow == pc[c] = "try"
         ch == IF sendNow THEN Append(chan[s], c) ELSE chan[s]
     IN /\ \E j \in DOMAIN ch : ch[j] = c
        /\ (sendNow => n[c] > 0)
        /\ chan' = [chan EXCEPT ![s] = RemoveFirst(ch, c)]
        /\ pc' = IF sendNow THEN [pc EXCEPT ![c] = IF Early THEN "returned" ELSE "waiting"] ELSE pc
        /\ ret' = IF sendNow /\ Early THEN [ret EXCEPT ![c] = "nil"] ELSE ret
        /\ accAt' = IF sendNow THEN [accAt EXCEPT ![c] = now] ELSE accAt
        /\ accBeforeShut' = IF sendNow /\ shut = "no" THEN accBeforeShut \cup {c} ELSE accBeforeShut
  /\ cnt' = [cnt EXCEPT ![s] = @ + n[c]]
  /\ pending' = [pending EXCEPT ![s] = Append(@, [c |-> c, k |-> n[c]])]
  /\ st' = [st EXCEPT ![s] = IF st[s] = "sel" THEN "flush" ELSE "dflush"]
  /\ sentF' = [sentF EXCEPT ![s] = FALSE]
  /\ UNCHANGED <<n, cx, cb, rem, errs, resp, preLimitOk, envVars, admVars, deadline, cur, curSent, curTrig, expVars>>
TProcessItem == Ev("ProcessItem") /\ TRecvOf(E.s, E.c) /\ n[E.c] = E.a /\ cnt'[E.s] = E.b /\ KeepE /\ Adv

TSendItems ==
  /\ Ev("SendItems")
  /\ \/ FlushSplit(E.s) \/ TimerSplit(E.s) \/ (DrainDone(E.s) /\ cnt[E.s] > 0)
  /\ curSent'[E.s] = E.b /\ Len(cur'[E.s]) = E.d /\ cnt'[E.s] = E.h /\ curTrig'[E.s] = E.k
  /\ KeepE /\ Adv
TContributor ==
  /\ Ev("Contributor")
  /\ E.b + 1 \in DOMAIN cur[E.s]
  /\ cur[E.s][E.b + 1].k = E.d
  /\ cx[cur[E.s][E.b + 1].c] = E.x
  /\ (E.c # "" => cur[E.s][E.b + 1].c = E.c)
  /\ Same /\ KeepE /\ Adv
TSemAcquired == Ev("SemAcquired") /\ Acquire(E.s) /\ emap' = (E.e :> Len(exp) + 1) @@ emap /\ Adv
TFlushDone == Ev("FlushDone") /\ FlushDone(E.s) /\ cnt[E.s] = E.a /\ (sentF[E.s] <=> (E.b = 1)) /\ KeepE /\ Adv
TTimerFire == Ev("TimerFire") /\ TimerFire(E.s) /\ cnt[E.s] = E.a /\ KeepE /\ Adv
TRearm0 == Ev("Rearm0") /\ TimerRearm(E.s) /\ KeepE /\ Adv
TShutdownSeen == Ev("ShutdownSeen") /\ SeeShutdown(E.s) /\ cnt[E.s] = E.a /\ KeepE /\ Adv
TLoopExit ==
  /\ Ev("LoopExit")
  /\ \/ st[E.s] = "exited" /\ Same
     \/ st[E.s] = "dsel" /\ cnt[E.s] = 0 /\ DrainDone(E.s)
  /\ KeepE /\ Adv

\* ---- export goroutines
X == emap[E.e]
HasX == E.e \in DOMAIN emap
TExportStart == Ev("ExportStart") /\ HasX /\ ExportBegin(X) /\ ((exp'[X].kind # "own") <=> (E.b = 1)) /\ KeepE /\ Adv
TSinkBegin == Ev("ExportBegin") /\ HasX /\ exp[X].st = "begun" /\ exp[X].kind = E.x /\ exp[X].sent = E.a
              /\ Same /\ KeepE /\ Adv
TSinkEnd ==
  /\ Ev("ExportEnd") /\ HasX
  /\ ExportEnd(X, E.k = "fail")
  /\ (exp'[X].fail <=> (E.k # "ok"))
  /\ (E.k = "ctxerr" => exp'[X].ctxerr)
  /\ KeepE /\ Adv
TExportDone == Ev("ExportDone") /\ HasX /\ exp[X].st \in {"resp", "fin"} /\ (exp[X].fail <=> (E.b = 1)) /\ Same /\ KeepE /\ Adv
TRespDelivered ==
  /\ Ev("RespDelivered") /\ HasX
  /\ \/ /\ exp[X].st = "resp" /\ exp[X].i <= Len(exp[X].tb)
        /\ RespTarget(X).k = E.b /\ cx[RespTarget(X).c] = E.x /\ (E.c # "" => RespTarget(X).c = E.c)
        /\ resp' = [resp EXCEPT ![RespTarget(X).c] = Append(@, [e |-> X, count |-> RespTarget(X).k, fail |-> exp[X].fail])]
        /\ exp' = [exp EXCEPT ![X].i = @ + 1]
        /\ UNCHANGED <<n, cx, cb, pc, ret, rem, errs, preLimitOk, envVars, admVars, shardVars, sem, histVars>>
     \/ /\ \E j \in 1..(exp[X].i - 1) : exp[X].tb[j].k = E.b /\ (E.c # "" => exp[X].tb[j].c = E.c)
        /\ Same                                                    \* already performed by the receiver's event
  /\ KeepE /\ Adv
TRespSkipped == Ev("RespSkipped") /\ HasX /\ exp[X].st = "resp" /\ exp[X].i <= Len(exp[X].tb) /\ RespTarget(X).k = E.b /\ cx[RespTarget(X).c] = E.x /\ RespSkip(X) /\ KeepE /\ Adv
TExportExit == Ev("ExportExit") /\ HasX /\ ExportExit(X) /\ KeepE /\ Adv

\* ---- environment
TCancel == Ev("Cancel") /\ (IF ctxDone[E.x] THEN Same ELSE (ctxDone' = [ctxDone EXCEPT ![E.x] = TRUE]
             /\ UNCHANGED <<callerVars, now, shut, admVars, shardVars, expVars, histVars>>)) /\ KeepE /\ Adv
TShutdownCall == Ev("ShutdownCall") /\ ShutdownCall /\ KeepE /\ Adv
TShutdownReturn == Ev("ShutdownReturn") /\ ShutdownReturn /\ KeepE /\ Adv

TNext ==
  \/ TReset \/ TTime
  \/ Skip({"Call", "RespChan", "Rearm1", "Quiet", "Tick", "BackLinks", "Stuck", "End", "Telemetry"})
  \/ TAdmitMiss \/ TAdmitNew \/ TAdmitLost \/ TAdmitReject \/ TEnqueueTry \/ TEnqueueSend \/ TEnqueueCtxDone
  \/ TWaitCtxDone \/ TRespRecv \/ TReturn
  \/ TLoopStart \/ TProcessItem \/ TSendItems \/ TContributor \/ TSemAcquired \/ TFlushDone \/ TTimerFire \/ TRearm0
  \/ TShutdownSeen \/ TLoopExit
  \/ TExportStart \/ TSinkBegin \/ TSinkEnd \/ TExportDone \/ TRespDelivered \/ TRespSkipped \/ TExportExit
  \/ TCancel \/ TShutdownCall \/ TShutdownReturn

TInit == Init /\ l = 1 /\ emap = [x \in {} |-> 0]
TSpec == TInit /\ [][TNext]_tvars

\* acceptance: high-water mark of l (run with -workers 1)
HW == TLCSet(1, IF TLCGet(1) < l THEN l ELSE TLCGet(1))
ASSUME TLCSet(1, 0)
Report == PrintT(<<"BPTRACE-HW", TLCGet(1), Len(Trace)>>)
=============================================================================
