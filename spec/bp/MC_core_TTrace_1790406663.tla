---- MODULE MC_core_TTrace_1790406663 ----
EXTENDS Sequences, TLCExt, MC_core, Toolbox, Naturals, TLC

_expression ==
    LET MC_core_TEExpression == INSTANCE MC_core_TEExpression
    IN MC_core_TEExpression!expression
----

_trace ==
    LET MC_core_TETrace == INSTANCE MC_core_TETrace
    IN MC_core_TETrace!trace
----

_inv ==
    ~(
        TLCGet("level") = Len(_TETrace)
        /\
        cur = ([one |-> <<[c |-> "c1", k |-> 2]>>])
        /\
        errs = ([c1 |-> {}, c2 |-> {}])
        /\
        shut = ("no")
        /\
        pending = ([one |-> <<[c |-> "c1", k |-> 3]>>])
        /\
        accAt = ([c1 |-> 0, c2 |-> -1])
        /\
        now = (0)
        /\
        sem = (0)
        /\
        rem = ([c1 |-> 3, c2 |-> 1])
        /\
        exp = (<<>>)
        /\
        deadline = ([one |-> -1])
        /\
        cb = ([c1 |-> "one", c2 |-> "one"])
        /\
        ret = ([c1 |-> "none", c2 |-> "none"])
        /\
        st = ([one |-> "acq"])
        /\
        curTrig = ([one |-> "size"])
        /\
        resp = ([c1 |-> <<>>, c2 |-> <<>>])
        /\
        curSent = ([one |-> 2])
        /\
        cnt = ([one |-> 1])
        /\
        sentF = ([one |-> TRUE])
        /\
        n = ([c1 |-> 3, c2 |-> 1])
        /\
        pc = ([c1 |-> "waiting", c2 |-> "idle"])
        /\
        size = (0)
        /\
        cx = ([c1 |-> "x1", c2 |-> "x2"])
        /\
        stored = ({"one"})
        /\
        accBeforeShut = ({"c1"})
        /\
        chan = ([one |-> <<>>])
        /\
        preLimitOk = ([c1 |-> TRUE, c2 |-> TRUE])
        /\
        ctxDone = ([x1 |-> FALSE, x2 |-> FALSE])
    )
----

_init ==
    /\ sem = _TETrace[1].sem
    /\ sentF = _TETrace[1].sentF
    /\ ctxDone = _TETrace[1].ctxDone
    /\ cur = _TETrace[1].cur
    /\ cb = _TETrace[1].cb
    /\ n = _TETrace[1].n
    /\ now = _TETrace[1].now
    /\ resp = _TETrace[1].resp
    /\ pc = _TETrace[1].pc
    /\ cx = _TETrace[1].cx
    /\ exp = _TETrace[1].exp
    /\ pending = _TETrace[1].pending
    /\ stored = _TETrace[1].stored
    /\ rem = _TETrace[1].rem
    /\ ret = _TETrace[1].ret
    /\ st = _TETrace[1].st
    /\ cnt = _TETrace[1].cnt
    /\ chan = _TETrace[1].chan
    /\ deadline = _TETrace[1].deadline
    /\ size = _TETrace[1].size
    /\ errs = _TETrace[1].errs
    /\ preLimitOk = _TETrace[1].preLimitOk
    /\ accBeforeShut = _TETrace[1].accBeforeShut
    /\ shut = _TETrace[1].shut
    /\ curTrig = _TETrace[1].curTrig
    /\ accAt = _TETrace[1].accAt
    /\ curSent = _TETrace[1].curSent
----

_next ==
    /\ \E i,j \in DOMAIN _TETrace:
        /\ \/ /\ j = i + 1
              /\ i = TLCGet("level")
        /\ sem  = _TETrace[i].sem
        /\ sem' = _TETrace[j].sem
        /\ sentF  = _TETrace[i].sentF
        /\ sentF' = _TETrace[j].sentF
        /\ ctxDone  = _TETrace[i].ctxDone
        /\ ctxDone' = _TETrace[j].ctxDone
        /\ cur  = _TETrace[i].cur
        /\ cur' = _TETrace[j].cur
        /\ cb  = _TETrace[i].cb
        /\ cb' = _TETrace[j].cb
        /\ n  = _TETrace[i].n
        /\ n' = _TETrace[j].n
        /\ now  = _TETrace[i].now
        /\ now' = _TETrace[j].now
        /\ resp  = _TETrace[i].resp
        /\ resp' = _TETrace[j].resp
        /\ pc  = _TETrace[i].pc
        /\ pc' = _TETrace[j].pc
        /\ cx  = _TETrace[i].cx
        /\ cx' = _TETrace[j].cx
        /\ exp  = _TETrace[i].exp
        /\ exp' = _TETrace[j].exp
        /\ pending  = _TETrace[i].pending
        /\ pending' = _TETrace[j].pending
        /\ stored  = _TETrace[i].stored
        /\ stored' = _TETrace[j].stored
        /\ rem  = _TETrace[i].rem
        /\ rem' = _TETrace[j].rem
        /\ ret  = _TETrace[i].ret
        /\ ret' = _TETrace[j].ret
        /\ st  = _TETrace[i].st
        /\ st' = _TETrace[j].st
        /\ cnt  = _TETrace[i].cnt
        /\ cnt' = _TETrace[j].cnt
        /\ chan  = _TETrace[i].chan
        /\ chan' = _TETrace[j].chan
        /\ deadline  = _TETrace[i].deadline
        /\ deadline' = _TETrace[j].deadline
        /\ size  = _TETrace[i].size
        /\ size' = _TETrace[j].size
        /\ errs  = _TETrace[i].errs
        /\ errs' = _TETrace[j].errs
        /\ preLimitOk  = _TETrace[i].preLimitOk
        /\ preLimitOk' = _TETrace[j].preLimitOk
        /\ accBeforeShut  = _TETrace[i].accBeforeShut
        /\ accBeforeShut' = _TETrace[j].accBeforeShut
        /\ shut  = _TETrace[i].shut
        /\ shut' = _TETrace[j].shut
        /\ curTrig  = _TETrace[i].curTrig
        /\ curTrig' = _TETrace[j].curTrig
        /\ accAt  = _TETrace[i].accAt
        /\ accAt' = _TETrace[j].accAt
        /\ curSent  = _TETrace[i].curSent
        /\ curSent' = _TETrace[j].curSent

\* Uncomment the ASSUME below to write the states of the error trace
\* to the given file in Json format. Note that you can pass any tuple
\* to `JsonSerialize`. For example, a sub-sequence of _TETrace.
    \* ASSUME
    \*     LET J == INSTANCE Json
    \*         IN J!JsonSerialize("MC_core_TTrace_1790406663.json", _TETrace)

=============================================================================

 Note that you can extract this module `MC_core_TEExpression`
  to a dedicated file to reuse `expression` (the module in the 
  dedicated `MC_core_TEExpression.tla` file takes precedence 
  over the module `MC_core_TEExpression` below).

---- MODULE MC_core_TEExpression ----
EXTENDS Sequences, TLCExt, MC_core, Toolbox, Naturals, TLC

expression == 
    [
        \* To hide variables of the `MC_core` spec from the error trace,
        \* remove the variables below.  The trace will be written in the order
        \* of the fields of this record.
        sem |-> sem
        ,sentF |-> sentF
        ,ctxDone |-> ctxDone
        ,cur |-> cur
        ,cb |-> cb
        ,n |-> n
        ,now |-> now
        ,resp |-> resp
        ,pc |-> pc
        ,cx |-> cx
        ,exp |-> exp
        ,pending |-> pending
        ,stored |-> stored
        ,rem |-> rem
        ,ret |-> ret
        ,st |-> st
        ,cnt |-> cnt
        ,chan |-> chan
        ,deadline |-> deadline
        ,size |-> size
        ,errs |-> errs
        ,preLimitOk |-> preLimitOk
        ,accBeforeShut |-> accBeforeShut
        ,shut |-> shut
        ,curTrig |-> curTrig
        ,accAt |-> accAt
        ,curSent |-> curSent
        
        \* Put additional constant-, state-, and action-level expressions here:
        \* ,_stateNumber |-> _TEPosition
        \* ,_semUnchanged |-> sem = sem'
        
        \* Format the `sem` variable as Json value.
        \* ,_semJson |->
        \*     LET J == INSTANCE Json
        \*     IN J!ToJson(sem)
        
        \* Lastly, you may build expressions over arbitrary sets of states by
        \* leveraging the _TETrace operator.  For example, this is how to
        \* count the number of times a spec variable changed up to the current
        \* state in the trace.
        \* ,_semModCount |->
        \*     LET F[s \in DOMAIN _TETrace] ==
        \*         IF s = 1 THEN 0
        \*         ELSE IF _TETrace[s].sem # _TETrace[s-1].sem
        \*             THEN 1 + F[s-1] ELSE F[s-1]
        \*     IN F[_TEPosition - 1]
    ]

=============================================================================



Parsing and semantic processing can take forever if the trace below is long.
 In this case, it is advised to uncomment the module below to deserialize the
 trace from a generated binary file.

\*
\*---- MODULE MC_core_TETrace ----
\*EXTENDS IOUtils, MC_core, TLC
\*
\*trace == IODeserialize("MC_core_TTrace_1790406663.bin", TRUE)
\*
\*=============================================================================
\*

---- MODULE MC_core_TETrace ----
EXTENDS MC_core, TLC

trace == 
    <<
    ([cur |-> [one |-> <<>>],errs |-> [c1 |-> {}, c2 |-> {}],shut |-> "no",pending |-> [one |-> <<>>],accAt |-> [c1 |-> -1, c2 |-> -1],now |-> 0,sem |-> 0,rem |-> [c1 |-> 3, c2 |-> 1],exp |-> <<>>,deadline |-> [one |-> -1],cb |-> [c1 |-> "one", c2 |-> "one"],ret |-> [c1 |-> "none", c2 |-> "none"],st |-> [one |-> "starting"],curTrig |-> [one |-> "none"],resp |-> [c1 |-> <<>>, c2 |-> <<>>],curSent |-> [one |-> 0],cnt |-> [one |-> 0],sentF |-> [one |-> FALSE],n |-> [c1 |-> 3, c2 |-> 1],pc |-> [c1 |-> "idle", c2 |-> "idle"],size |-> 0,cx |-> [c1 |-> "x1", c2 |-> "x2"],stored |-> {"one"},accBeforeShut |-> {},chan |-> [one |-> <<>>],preLimitOk |-> [c1 |-> TRUE, c2 |-> TRUE],ctxDone |-> [x1 |-> FALSE, x2 |-> FALSE]]),
    ([cur |-> [one |-> <<>>],errs |-> [c1 |-> {}, c2 |-> {}],shut |-> "no",pending |-> [one |-> <<>>],accAt |-> [c1 |-> -1, c2 |-> -1],now |-> 0,sem |-> 0,rem |-> [c1 |-> 3, c2 |-> 1],exp |-> <<>>,deadline |-> [one |-> -1],cb |-> [c1 |-> "one", c2 |-> "one"],ret |-> [c1 |-> "none", c2 |-> "none"],st |-> [one |-> "starting"],curTrig |-> [one |-> "none"],resp |-> [c1 |-> <<>>, c2 |-> <<>>],curSent |-> [one |-> 0],cnt |-> [one |-> 0],sentF |-> [one |-> FALSE],n |-> [c1 |-> 3, c2 |-> 1],pc |-> [c1 |-> "try", c2 |-> "idle"],size |-> 0,cx |-> [c1 |-> "x1", c2 |-> "x2"],stored |-> {"one"},accBeforeShut |-> {},chan |-> [one |-> <<>>],preLimitOk |-> [c1 |-> TRUE, c2 |-> TRUE],ctxDone |-> [x1 |-> FALSE, x2 |-> FALSE]]),
    ([cur |-> [one |-> <<>>],errs |-> [c1 |-> {}, c2 |-> {}],shut |-> "no",pending |-> [one |-> <<>>],accAt |-> [c1 |-> 0, c2 |-> -1],now |-> 0,sem |-> 0,rem |-> [c1 |-> 3, c2 |-> 1],exp |-> <<>>,deadline |-> [one |-> -1],cb |-> [c1 |-> "one", c2 |-> "one"],ret |-> [c1 |-> "none", c2 |-> "none"],st |-> [one |-> "starting"],curTrig |-> [one |-> "none"],resp |-> [c1 |-> <<>>, c2 |-> <<>>],curSent |-> [one |-> 0],cnt |-> [one |-> 0],sentF |-> [one |-> FALSE],n |-> [c1 |-> 3, c2 |-> 1],pc |-> [c1 |-> "waiting", c2 |-> "idle"],size |-> 0,cx |-> [c1 |-> "x1", c2 |-> "x2"],stored |-> {"one"},accBeforeShut |-> {"c1"},chan |-> [one |-> <<"c1">>],preLimitOk |-> [c1 |-> TRUE, c2 |-> TRUE],ctxDone |-> [x1 |-> FALSE, x2 |-> FALSE]]),
    ([cur |-> [one |-> <<>>],errs |-> [c1 |-> {}, c2 |-> {}],shut |-> "no",pending |-> [one |-> <<>>],accAt |-> [c1 |-> 0, c2 |-> -1],now |-> 0,sem |-> 0,rem |-> [c1 |-> 3, c2 |-> 1],exp |-> <<>>,deadline |-> [one |-> -1],cb |-> [c1 |-> "one", c2 |-> "one"],ret |-> [c1 |-> "none", c2 |-> "none"],st |-> [one |-> "sel"],curTrig |-> [one |-> "none"],resp |-> [c1 |-> <<>>, c2 |-> <<>>],curSent |-> [one |-> 0],cnt |-> [one |-> 0],sentF |-> [one |-> FALSE],n |-> [c1 |-> 3, c2 |-> 1],pc |-> [c1 |-> "waiting", c2 |-> "idle"],size |-> 0,cx |-> [c1 |-> "x1", c2 |-> "x2"],stored |-> {"one"},accBeforeShut |-> {"c1"},chan |-> [one |-> <<"c1">>],preLimitOk |-> [c1 |-> TRUE, c2 |-> TRUE],ctxDone |-> [x1 |-> FALSE, x2 |-> FALSE]]),
    ([cur |-> [one |-> <<>>],errs |-> [c1 |-> {}, c2 |-> {}],shut |-> "no",pending |-> [one |-> <<[c |-> "c1", k |-> 3]>>],accAt |-> [c1 |-> 0, c2 |-> -1],now |-> 0,sem |-> 0,rem |-> [c1 |-> 3, c2 |-> 1],exp |-> <<>>,deadline |-> [one |-> -1],cb |-> [c1 |-> "one", c2 |-> "one"],ret |-> [c1 |-> "none", c2 |-> "none"],st |-> [one |-> "flush"],curTrig |-> [one |-> "none"],resp |-> [c1 |-> <<>>, c2 |-> <<>>],curSent |-> [one |-> 0],cnt |-> [one |-> 3],sentF |-> [one |-> FALSE],n |-> [c1 |-> 3, c2 |-> 1],pc |-> [c1 |-> "waiting", c2 |-> "idle"],size |-> 0,cx |-> [c1 |-> "x1", c2 |-> "x2"],stored |-> {"one"},accBeforeShut |-> {"c1"},chan |-> [one |-> <<>>],preLimitOk |-> [c1 |-> TRUE, c2 |-> TRUE],ctxDone |-> [x1 |-> FALSE, x2 |-> FALSE]]),
    ([cur |-> [one |-> <<[c |-> "c1", k |-> 2]>>],errs |-> [c1 |-> {}, c2 |-> {}],shut |-> "no",pending |-> [one |-> <<[c |-> "c1", k |-> 3]>>],accAt |-> [c1 |-> 0, c2 |-> -1],now |-> 0,sem |-> 0,rem |-> [c1 |-> 3, c2 |-> 1],exp |-> <<>>,deadline |-> [one |-> -1],cb |-> [c1 |-> "one", c2 |-> "one"],ret |-> [c1 |-> "none", c2 |-> "none"],st |-> [one |-> "acq"],curTrig |-> [one |-> "size"],resp |-> [c1 |-> <<>>, c2 |-> <<>>],curSent |-> [one |-> 2],cnt |-> [one |-> 1],sentF |-> [one |-> TRUE],n |-> [c1 |-> 3, c2 |-> 1],pc |-> [c1 |-> "waiting", c2 |-> "idle"],size |-> 0,cx |-> [c1 |-> "x1", c2 |-> "x2"],stored |-> {"one"},accBeforeShut |-> {"c1"},chan |-> [one |-> <<>>],preLimitOk |-> [c1 |-> TRUE, c2 |-> TRUE],ctxDone |-> [x1 |-> FALSE, x2 |-> FALSE]])
    >>
----


=============================================================================

---- CONFIG MC_core_TTrace_1790406663 ----
CONSTANTS
    Callers = { "c1" , "c2" }
    Sizes = { 1 , 2 , 3 }
    Ctxs = { "x1" , "x2" }
    Combos = { "one" }
    CtxAssigns <- MCCtxAssigns
    ComboAssigns <- MCComboAssigns
    Multi = FALSE
    S = 2
    M = 2
    T = 0
    K = 1
    Q = 1
    L = 0
    Early = FALSE
    MaxCancel = 1
    MaxNow = 0
    SinkHonoursCtx = TRUE
    AllowShutdown = TRUE
    MutLastContributorIgnored = FALSE
    MutFlushStrictlyGreater = FALSE
    MutNoRearmOnTimer = FALSE
    MutLimitOutsideLock = FALSE
    MutNoPartialDecrement = TRUE
    MutRespondBeforeExport = FALSE

INVARIANT
    _inv

CHECK_DEADLOCK
    \* CHECK_DEADLOCK off because of PROPERTY or INVARIANT above.
    FALSE

INIT
    _init

NEXT
    _next

CONSTANT
    _TETrace <- _trace

ALIAS
    _expression
=============================================================================
\* Generated on Sat Sep 26 07:11:04 UTC 2026