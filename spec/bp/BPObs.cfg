SPECIFICATION Spec
CONSTANT TraceFile = "trace.ndjson"
INVARIANT Report
CHECK_DEADLOCK FALSE
