--------------------------- MODULE BatchProcessor ---------------------------
(***************************************************************************)
(* White-box specification of collector/processor/concurrentbatchprocessor *)
(* (batch_processor.go).  One action per code segment between two hook     *)
(* points (= per critical section / linearization point); the action is    *)
(* named after the hook that ends the segment, so that the event a hook    *)
(* emits is "after the state change" of the action of the same name.       *)
(*                                                                         *)
(* Processes: callers (one Consume call each), one loop per shard (= per   *)
(* metadata combination), one goroutine per export, the environment        *)
(* (contexts, clock, downstream consumer, Shutdown).                       *)
(***************************************************************************)
EXTENDS Integers, Sequences, FiniteSets, TLC

CONSTANTS
  Callers,        \* request identities (each calls Consume once)
  Sizes,          \* possible item counts of a request (0 allowed)
  Ctxs,           \* identities of request contexts (several callers may share one)
  Combos,         \* metadata-value combinations (one shard each)
  CtxAssigns,     \* set of functions Callers -> Ctxs the initial state may choose from
  ComboAssigns,   \* set of functions Callers -> Combos
  Multi,          \* TRUE: metadata_keys configured (multiShardBatcher); FALSE: singleton shard
  S,              \* send_batch_size   (0 = none)
  M,              \* send_batch_max_size (0 = none)
  T,              \* timeout in ticks  (0 = none)
  K,              \* max_concurrency   (0 = unlimited)
  Q,              \* capacity of a shard's newItem channel (runtime.NumCPU())
  L,              \* metadata_cardinality_limit (0 = unlimited)
  Early,          \* early_return
  MaxCancel,      \* bound: number of contexts the environment may cancel
  MaxNow,         \* bound: virtual clock
  SinkHonoursCtx, \* the downstream consumer fails an export whose context is done
  AllowShutdown,  \* the environment may call Shutdown
  \* model-level mutant switches (FALSE in every registered configuration)
  MutLastContributorIgnored,  \* allSameContext never looks at the last contributor
  MutFlushStrictlyGreater,    \* flush loop tests cnt > S instead of cnt >= S
  MutNoRearmOnTimer,          \* timer case does not re-arm the timer
  MutLimitOutsideLock,        \* cardinality test made before taking the lock
  MutNoPartialDecrement,      \* partial send does not decrement the head pending entry
  MutRespondBeforeExport      \* (reserved)

VARIABLES
  \* ---- callers
  n, cx, cb,      \* static per caller: size, context, combination (chosen in Init)
  pc,             \* "idle","missed","try","waiting","returned"
  ret,            \* "none","nil","fail","ctx","failctx","toomany"
  rem,            \* items still unanswered (waitForItems' numItems)
  errs,           \* set of export ids whose failure has been joined into the caller's error
  resp,           \* respCh: sequence (capacity 1) of [e, count, fail]
  preLimitOk,     \* (mutant only) result of the limit test made outside the lock
  \* ---- environment
  ctxDone,        \* [Ctxs -> BOOLEAN]
  now,            \* virtual clock
  shut,           \* "no","closed","returned"
  \* ---- admission (multiShardBatcher)
  stored,         \* combinations present in the sync.Map
  size,           \* multiShardBatcher.size
  \* ---- shards
  st,             \* program counter of the shard loop
  chan,           \* newItem channel: sequence of callers
  cnt,            \* batch.itemCount()
  pending,        \* sequence of [c, k]
  sentF,          \* flushItems' local `sent`
  deadline,       \* absolute expiry time of shard.timer, -1 = no timer
  cur,            \* thisBatch between apportioning and spawn: seq of [c, k]
  curSent,        \* `sent` of the send in preparation
  curTrig,        \* its trigger ("size" / "timeout")
  \* ---- semaphore and exports
  sem,            \* exports holding a semaphore slot / wait-group entry
  exp,            \* sequence of export records
  \* ---- history (not in VIEW)
  accAt,          \* [Callers -> time of EnqueueSend, -1 before]
  accBeforeShut   \* callers whose enqueue completed before Shutdown was called

callerVars == <<n, cx, cb, pc, ret, rem, errs, resp, preLimitOk>>
envVars    == <<ctxDone, now, shut>>
admVars    == <<stored, size>>
shardVars  == <<st, chan, cnt, pending, sentF, deadline, cur, curSent, curTrig>>
expVars    == <<sem, exp>>
histVars   == <<accAt, accBeforeShut>>
vars == <<callerVars, envVars, admVars, shardVars, expVars, histVars>>

HasTimer == T > 0 /\ S > 0
ShardOf(c) == cb[c]
Started(s) == st[s] # "off"

\* ------------------------------------------------------------------------
\* helpers

RECURSIVE SumK(_)
SumK(p) == IF p = <<>> THEN 0 ELSE Head(p).k + SumK(Tail(p))

RECURSIVE SumFor(_, _)
SumFor(p, c) == IF p = <<>> THEN 0
                ELSE (IF Head(p).c = c THEN Head(p).k ELSE 0) + SumFor(Tail(p), c)

\* The apportioning loop of sendItems, exactly as coded: walk `pending`
\* from the head until `left` items are accounted for; the head entry may be
\* sent partially, in which case it stays at the head with a reduced count.
RECURSIVE App(_, _, _)
App(p, left, acc) ==
  IF p = <<>> \/ left = 0 THEN <<acc, p>>
  ELSE IF Head(p).k > left
       THEN <<Append(acc, [c |-> Head(p).c, k |-> left]),
              (IF MutNoPartialDecrement THEN p
               ELSE <<[c |-> Head(p).c, k |-> Head(p).k - left]>> \o Tail(p))>>
       ELSE App(Tail(p), left - Head(p).k, Append(acc, Head(p)))

SentSize(s) == IF M > 0 /\ cnt[s] > M THEN M ELSE cnt[s]

NeedFlush(s) ==
  /\ cnt[s] > 0
  /\ \/ ~HasTimer
     \/ (IF MutFlushStrictlyGreater THEN cnt[s] > S ELSE cnt[s] >= S)

\* all contributors of a batch share one context (allSameContext)
AllSame(tb) ==
  LET last == IF MutLastContributorIgnored THEN Len(tb) - 1 ELSE Len(tb)
  IN \A j \in 1..last : cx[tb[j].c] = cx[tb[1].c]

CtxSet(tb) == {cx[tb[j].c] : j \in DOMAIN tb}

\* ------------------------------------------------------------------------
Init ==
  /\ n \in [Callers -> Sizes]
  /\ cx \in CtxAssigns
  /\ cb \in ComboAssigns
  /\ pc = [c \in Callers |-> "idle"]
  /\ ret = [c \in Callers |-> "none"]
  /\ rem = n
  /\ errs = [c \in Callers |-> {}]
  /\ resp = [c \in Callers |-> <<>>]
  /\ preLimitOk = [c \in Callers |-> TRUE]
  /\ ctxDone = [x \in Ctxs |-> FALSE]
  /\ now = 0
  /\ shut = "no"
  /\ stored = IF Multi THEN {} ELSE Combos
  /\ size = 0
  /\ st = [s \in Combos |-> IF Multi THEN "off" ELSE "starting"]
  /\ chan = [s \in Combos |-> <<>>]
  /\ cnt = [s \in Combos |-> 0]
  /\ pending = [s \in Combos |-> <<>>]
  /\ sentF = [s \in Combos |-> FALSE]
  /\ deadline = [s \in Combos |-> -1]
  /\ cur = [s \in Combos |-> <<>>]
  /\ curSent = [s \in Combos |-> 0]
  /\ curTrig = [s \in Combos |-> "none"]
  /\ sem = 0
  /\ exp = <<>>
  /\ accAt = [c \in Callers |-> -1]
  /\ accBeforeShut = {}

\* ------------------------------------------------------------------------
\* Callers

\* Consume is entered; in multi-shard mode the lock-free sync.Map.Load is part
\* of this segment (hit -> "try", miss -> "missed").
Call(c) ==
  /\ pc[c] = "idle"
  /\ shut = "no"
  /\ pc' = [pc EXCEPT ![c] = IF ShardOf(c) \in stored THEN "try" ELSE "missed"]
  /\ preLimitOk' = [preLimitOk EXCEPT ![c] = (L = 0 \/ size < L)]
  /\ UNCHANGED <<n, cx, cb, ret, rem, errs, resp, envVars, admVars, shardVars, expVars, histVars>>

\* The locked section of multiShardBatcher.consume, one atomic step:
\* limit test, LoadOrStore, size++, shard start.
AdmitSlow(c) ==
  /\ pc[c] = "missed"
  /\ LET s == ShardOf(c)
         limitHit == IF MutLimitOutsideLock THEN ~preLimitOk[c]
                     ELSE (L # 0 /\ size >= L)
     IN IF limitHit
        THEN /\ pc' = [pc EXCEPT ![c] = "returned"]
             /\ ret' = [ret EXCEPT ![c] = "toomany"]
             /\ UNCHANGED <<stored, size, st>>
        ELSE IF s \in stored
        THEN /\ pc' = [pc EXCEPT ![c] = "try"]       \* lost the race: LoadOrStore loaded
             /\ UNCHANGED <<ret, stored, size, st>>
        ELSE /\ pc' = [pc EXCEPT ![c] = "try"]
             /\ stored' = stored \cup {s}
             /\ size' = size + 1
             /\ st' = [st EXCEPT ![s] = "starting"]
             /\ UNCHANGED ret
  /\ UNCHANGED <<n, cx, cb, rem, errs, resp, preLimitOk, envVars,
                 chan, cnt, pending, sentF, deadline, cur, curSent, curTrig, expVars, histVars>>

\* itemCount == 0: return nil at once
ReturnEmpty(c) ==
  /\ pc[c] = "try" /\ n[c] = 0
  /\ pc' = [pc EXCEPT ![c] = "returned"]
  /\ ret' = [ret EXCEPT ![c] = "nil"]
  /\ UNCHANGED <<n, cx, cb, rem, errs, resp, preLimitOk, envVars, admVars, shardVars, expVars, histVars>>

CanEnqueueSend(c) == pc[c] = "try" /\ n[c] > 0 /\ Len(chan[ShardOf(c)]) < Q
EnqueueSend(c) ==
  /\ CanEnqueueSend(c)
  /\ chan' = [chan EXCEPT ![ShardOf(c)] = Append(@, c)]
  /\ pc' = [pc EXCEPT ![c] = IF Early THEN "returned" ELSE "waiting"]
  /\ ret' = [ret EXCEPT ![c] = IF Early THEN "nil" ELSE @]
  /\ accAt' = [accAt EXCEPT ![c] = now]
  /\ accBeforeShut' = IF shut = "no" THEN accBeforeShut \cup {c} ELSE accBeforeShut
  /\ UNCHANGED <<n, cx, cb, rem, errs, resp, preLimitOk, envVars, admVars,
                 st, cnt, pending, sentF, deadline, cur, curSent, curTrig, expVars>>

CanEnqueueCtxDone(c) == pc[c] = "try" /\ n[c] > 0 /\ ctxDone[cx[c]]
EnqueueCtxDone(c) ==
  /\ CanEnqueueCtxDone(c)
  /\ pc' = [pc EXCEPT ![c] = "returned"]
  /\ ret' = [ret EXCEPT ![c] = "ctx"]
  /\ UNCHANGED <<n, cx, cb, rem, errs, resp, preLimitOk, envVars, admVars, shardVars, expVars, histVars>>

CanRespRecv(c) == pc[c] = "waiting" /\ resp[c] # <<>>
RespRecv(c) ==
  /\ CanRespRecv(c)
  /\ LET r  == Head(resp[c])
         e2 == IF r.fail THEN errs[c] \cup {r.e} ELSE errs[c]
         nr == rem[c] - r.count
     IN /\ resp' = [resp EXCEPT ![c] = Tail(@)]
        /\ errs' = [errs EXCEPT ![c] = e2]
        /\ rem' = [rem EXCEPT ![c] = nr]
        /\ pc' = [pc EXCEPT ![c] = IF nr = 0 THEN "returned" ELSE @]
        /\ ret' = [ret EXCEPT ![c] = IF nr = 0 THEN (IF e2 = {} THEN "nil" ELSE "fail") ELSE @]
  /\ UNCHANGED <<n, cx, cb, preLimitOk, envVars, admVars, shardVars, expVars, histVars>>

CanWaitCtxDone(c) == pc[c] = "waiting" /\ ctxDone[cx[c]]
WaitCtxDone(c) ==
  /\ CanWaitCtxDone(c)
  /\ pc' = [pc EXCEPT ![c] = "returned"]
  /\ ret' = [ret EXCEPT ![c] = IF errs[c] = {} THEN "ctx" ELSE "failctx"]
  /\ UNCHANGED <<n, cx, cb, rem, errs, resp, preLimitOk, envVars, admVars, shardVars, expVars, histVars>>

\* ------------------------------------------------------------------------
\* Shard loop.  st[s]:
\*   "off"      no shard for this combination
\*   "starting" goroutine spawned, before the loop (timer not yet created)
\*   "sel"      at the main select
\*   "flush"    in flushItems' loop test (after processItem in the main loop)
\*   "acq"      batch split and apportioned, waiting for the semaphore
\*   "tfired"   timer case entered
\*   "tacq"     timer-triggered send waiting for the semaphore
\*   "trearm"   timer-triggered send spawned, timer not yet re-armed
\*   "dsel"     shutdown seen: at the non-blocking drain select
\*   "dflush","dacq"  flushItems inside the drain loop
\*   "facq"     final send waiting for the semaphore
\*   "exited"

LoopStart(s) ==
  /\ st[s] = "starting"
  /\ st' = [st EXCEPT ![s] = "sel"]
  /\ deadline' = [deadline EXCEPT ![s] = IF HasTimer THEN now + T ELSE -1]
  /\ UNCHANGED <<callerVars, envVars, admVars, chan, cnt, pending, sentF, cur, curSent, curTrig, expVars, histVars>>

Recv(s, from, to) ==
  /\ st[s] = from
  /\ chan[s] # <<>>
  /\ LET c == Head(chan[s]) IN
       /\ cnt' = [cnt EXCEPT ![s] = @ + n[c]]
       /\ pending' = [pending EXCEPT ![s] = Append(@, [c |-> c, k |-> n[c]])]
  /\ chan' = [chan EXCEPT ![s] = Tail(@)]
  /\ st' = [st EXCEPT ![s] = to]
  /\ sentF' = [sentF EXCEPT ![s] = FALSE]
  /\ UNCHANGED <<callerVars, envVars, admVars, deadline, cur, curSent, curTrig, expVars, histVars>>

LoopRecv(s)  == Recv(s, "sel", "flush")      \* ends at hook ProcessItem
DrainRecv(s) == Recv(s, "dsel", "dflush")

\* splitBatch + the apportioning loop (ends at hook SendItems)
SplitTo(s, to, trig) ==
  LET sent == SentSize(s)
      r    == App(pending[s], sent, <<>>)
  IN /\ cnt' = [cnt EXCEPT ![s] = @ - sent]
     /\ pending' = [pending EXCEPT ![s] = r[2]]
     /\ cur' = [cur EXCEPT ![s] = r[1]]
     /\ curSent' = [curSent EXCEPT ![s] = sent]
     /\ curTrig' = [curTrig EXCEPT ![s] = trig]
     /\ st' = [st EXCEPT ![s] = to]

FlushSplit(s) ==
  /\ st[s] \in {"flush", "dflush"}
  /\ NeedFlush(s)
  /\ SplitTo(s, IF st[s] = "flush" THEN "acq" ELSE "dacq", "size")
  /\ sentF' = [sentF EXCEPT ![s] = TRUE]
  /\ UNCHANGED <<callerVars, envVars, admVars, chan, deadline, expVars, histVars>>

\* the flush loop ends; stopTimer+resetTimer when something was sent
FlushDone(s) ==
  /\ st[s] \in {"flush", "dflush"}
  /\ ~NeedFlush(s)
  /\ st' = [st EXCEPT ![s] = IF st[s] = "flush" THEN "sel" ELSE "dsel"]
  /\ deadline' = [deadline EXCEPT ![s] = IF sentF[s] /\ HasTimer THEN now + T ELSE @]
  /\ UNCHANGED <<callerVars, envVars, admVars, chan, cnt, pending, sentF, cur, curSent, curTrig, expVars, histVars>>

CanTimerFire(s) == st[s] = "sel" /\ HasTimer /\ deadline[s] >= 0 /\ deadline[s] <= now
TimerFire(s) ==
  /\ CanTimerFire(s)
  /\ st' = [st EXCEPT ![s] = "tfired"]
  /\ deadline' = [deadline EXCEPT ![s] = -1]          \* expired, not armed
  /\ UNCHANGED <<callerVars, envVars, admVars, chan, cnt, pending, sentF, cur, curSent, curTrig, expVars, histVars>>

TimerSplit(s) ==
  /\ st[s] = "tfired" /\ cnt[s] > 0
  /\ SplitTo(s, "tacq", "timeout")
  /\ UNCHANGED <<callerVars, envVars, admVars, chan, sentF, deadline, expVars, histVars>>

TimerRearm(s) ==
  /\ \/ st[s] = "tfired" /\ cnt[s] = 0
     \/ st[s] = "trearm"
  /\ st' = [st EXCEPT ![s] = "sel"]
  /\ deadline' = [deadline EXCEPT ![s] = IF MutNoRearmOnTimer THEN -1 ELSE now + T]
  /\ UNCHANGED <<callerVars, envVars, admVars, chan, cnt, pending, sentF, cur, curSent, curTrig, expVars, histVars>>

CanSeeShutdown(s) == st[s] = "sel" /\ shut # "no"
SeeShutdown(s) ==
  /\ CanSeeShutdown(s)
  /\ st' = [st EXCEPT ![s] = "dsel"]
  /\ UNCHANGED <<callerVars, envVars, admVars, chan, cnt, pending, sentF, deadline, cur, curSent, curTrig, expVars, histVars>>

\* the drain loop finds the channel empty: final send or exit
DrainDone(s) ==
  /\ st[s] = "dsel" /\ chan[s] = <<>>
  /\ IF cnt[s] > 0
     THEN SplitTo(s, "facq", "timeout")
     ELSE /\ st' = [st EXCEPT ![s] = "exited"]
          /\ UNCHANGED <<cnt, pending, cur, curSent, curTrig>>
  /\ UNCHANGED <<callerVars, envVars, admVars, chan, sentF, deadline, expVars, histVars>>

AcqStates == {"acq", "dacq", "tacq", "facq"}
AfterAcq(x) == CASE x = "acq" -> "flush" [] x = "dacq" -> "dflush"
                 [] x = "tacq" -> "trearm" [] x = "facq" -> "exited"

CanAcquire(s) == st[s] \in AcqStates /\ (K = 0 \/ sem < K)
\* sem.Acquire succeeded, wait group incremented, export goroutine spawned
Acquire(s) ==
  /\ CanAcquire(s)
  /\ sem' = sem + 1
  /\ exp' = Append(exp, [s |-> s, tb |-> cur[s], sent |-> curSent[s], trig |-> curTrig[s],
                         st |-> "spawned", i |-> 1, fail |-> FALSE, kind |-> "none",
                         ctxerr |-> FALSE, begunAt |-> -1])
  /\ cur' = [cur EXCEPT ![s] = <<>>]
  /\ st' = [st EXCEPT ![s] = AfterAcq(st[s])]
  /\ UNCHANGED <<callerVars, envVars, admVars, chan, cnt, pending, sentF, deadline, curSent, curTrig, histVars>>

\* ------------------------------------------------------------------------
\* Export goroutines

\* context choice and the call into the next consumer (ends in the sink)
ExportBegin(e) ==
  /\ exp[e].st = "spawned"
  /\ exp' = [exp EXCEPT ![e].st = "begun",
                        ![e].kind = IF AllSame(exp[e].tb) THEN cx[exp[e].tb[1].c] ELSE "own",
                        ![e].begunAt = now]
  /\ UNCHANGED <<callerVars, envVars, admVars, shardVars, sem, histVars>>

\* the next consumer returns; the environment chooses the result, except that
\* a consumer honouring cancellation fails an export whose context is done
ExportEnd(e, f) ==
  /\ exp[e].st = "begun"
  /\ LET ctxerr == SinkHonoursCtx /\ exp[e].kind # "own" /\ ctxDone[exp[e].kind]
     IN exp' = [exp EXCEPT ![e].st = IF Early THEN "fin" ELSE "resp",
                           ![e].fail = (f \/ ctxerr),
                           ![e].ctxerr = ctxerr]
  /\ UNCHANGED <<callerVars, envVars, admVars, shardVars, sem, histVars>>

RespTarget(e) == exp[e].tb[exp[e].i]
CanRespDeliver(e) == exp[e].st = "resp" /\ exp[e].i <= Len(exp[e].tb) /\ Len(resp[RespTarget(e).c]) < 1
RespDeliver(e) ==
  /\ CanRespDeliver(e)
  /\ resp' = [resp EXCEPT ![RespTarget(e).c] = Append(@, [e |-> e, count |-> RespTarget(e).k, fail |-> exp[e].fail])]
  /\ exp' = [exp EXCEPT ![e].i = @ + 1]
  /\ UNCHANGED <<n, cx, cb, pc, ret, rem, errs, preLimitOk, envVars, admVars, shardVars, sem, histVars>>

CanRespSkip(e) == exp[e].st = "resp" /\ exp[e].i <= Len(exp[e].tb) /\ ctxDone[cx[RespTarget(e).c]]
RespSkip(e) ==
  /\ CanRespSkip(e)
  /\ exp' = [exp EXCEPT ![e].i = @ + 1]
  /\ UNCHANGED <<callerVars, envVars, admVars, shardVars, sem, histVars>>

CanExportExit(e) == exp[e].st = "fin" \/ (exp[e].st = "resp" /\ exp[e].i > Len(exp[e].tb))
ExportExit(e) ==
  /\ CanExportExit(e)
  /\ exp' = [exp EXCEPT ![e].st = "gone"]
  /\ sem' = sem - 1
  /\ UNCHANGED <<callerVars, envVars, admVars, shardVars, histVars>>

\* ------------------------------------------------------------------------
\* Environment

Cancel(x) ==
  /\ ~ctxDone[x]
  /\ Cardinality({y \in Ctxs : ctxDone[y]}) < MaxCancel
  /\ \E c \in Callers : cx[c] = x /\ pc[c] # "returned"
  /\ ctxDone' = [ctxDone EXCEPT ![x] = TRUE]
  /\ UNCHANGED <<callerVars, now, shut, admVars, shardVars, expVars, histVars>>

ShutdownCall ==
  /\ AllowShutdown /\ shut = "no"
  /\ shut' = "closed"
  /\ UNCHANGED <<callerVars, ctxDone, now, admVars, shardVars, expVars, histVars>>

CanShutdownReturn ==
  /\ shut = "closed"
  /\ \A s \in Combos : st[s] \in {"off", "exited"}
  /\ \A e \in DOMAIN exp : exp[e].st = "gone"
ShutdownReturn ==
  /\ CanShutdownReturn
  /\ shut' = "returned"
  /\ UNCHANGED <<callerVars, ctxDone, now, admVars, shardVars, expVars, histVars>>

\* Some zero-time step of the processor itself is enabled.  Virtual time may
\* pass only when this is false (synctest semantics; the idealisation under
\* which the deadlines of C09 are exact).  A call held inside the downstream
\* consumer ("begun") is not busy: exports take arbitrary time.
Busy ==
  \/ \E c \in Callers :
        \/ pc[c] = "missed"
        \/ (pc[c] = "try" /\ n[c] = 0)
        \/ CanEnqueueSend(c) \/ CanEnqueueCtxDone(c) \/ CanRespRecv(c) \/ CanWaitCtxDone(c)
  \/ \E s \in Combos :
        \/ st[s] \in {"starting", "flush", "dflush", "tfired", "trearm", "dsel"}
        \/ (st[s] = "sel" /\ chan[s] # <<>>)
        \/ CanTimerFire(s) \/ CanSeeShutdown(s) \/ CanAcquire(s)
  \/ \E e \in DOMAIN exp :
        \/ exp[e].st = "spawned"
        \/ CanRespDeliver(e) \/ CanRespSkip(e) \/ CanExportExit(e)
  \/ CanShutdownReturn

Tick ==
  /\ HasTimer /\ now < MaxNow
  /\ ~Busy
  /\ now' = now + 1
  /\ UNCHANGED <<callerVars, ctxDone, shut, admVars, shardVars, expVars, histVars>>

\* ------------------------------------------------------------------------
CallerStep(c) == Call(c) \/ AdmitSlow(c) \/ ReturnEmpty(c) \/ EnqueueSend(c) \/ EnqueueCtxDone(c)
                 \/ RespRecv(c) \/ WaitCtxDone(c)
ShardStep(s) == LoopStart(s) \/ LoopRecv(s) \/ DrainRecv(s) \/ FlushSplit(s) \/ FlushDone(s)
                \/ TimerFire(s) \/ TimerSplit(s) \/ TimerRearm(s) \/ SeeShutdown(s) \/ DrainDone(s)
                \/ Acquire(s)
ExportStep(e) == ExportBegin(e) \/ RespDeliver(e) \/ RespSkip(e) \/ ExportExit(e)
                 \/ \E f \in BOOLEAN : ExportEnd(e, f)
EnvStep == (\E x \in Ctxs : Cancel(x)) \/ ShutdownCall \/ ShutdownReturn \/ Tick

\* Intended terminal states (so that TLC's deadlock check flags only real ones):
\* every started call has returned - or is one of the documented stragglers
\* whose enqueue raced the shutdown drain (EnqueueAfterDrain) - no export is
\* unfinished, and Shutdown has returned if it was called.
Straggler(c) == /\ shut # "no" /\ c \notin accBeforeShut
                /\ pc[c] \in {"try", "waiting"}
\* the bounded clock of a model-checking configuration has run out while a
\* timer is still pending: an artefact of the bound, not a deadlock
ClockExhausted == HasTimer /\ now >= MaxNow
Terminal ==
  /\ ~Busy
  /\ \/ /\ \A c \in Callers : pc[c] \in {"idle", "returned"} \/ Straggler(c)
        /\ \A e \in DOMAIN exp : exp[e].st = "gone"
        /\ shut \in {"no", "returned"}
        /\ (shut = "no" => \A c \in Callers : pc[c] = "returned")
     \/ ClockExhausted
Terminated == Terminal /\ UNCHANGED vars

Next ==
  \/ \E c \in Callers : CallerStep(c)
  \/ \E s \in Combos : ShardStep(s)
  \/ \E e \in DOMAIN exp : ExportStep(e)
  \/ EnvStep
  \/ Terminated

Spec == Init /\ [][Next]_vars

\* Fairness: every step of the processor itself is weakly fair; the
\* environment is only obliged to finish exports it has been given and, when
\* a timer is pending, to let time pass.
FairSpec ==
  /\ Spec
  /\ \A c \in Callers : WF_vars(AdmitSlow(c) \/ ReturnEmpty(c) \/ EnqueueSend(c) \/ EnqueueCtxDone(c)
                                \/ RespRecv(c) \/ WaitCtxDone(c))
  /\ \A s \in Combos : WF_vars(LoopStart(s) \/ LoopRecv(s) \/ DrainRecv(s) \/ FlushSplit(s) \/ FlushDone(s)
                               \/ TimerFire(s) \/ TimerSplit(s) \/ TimerRearm(s) \/ SeeShutdown(s)
                               \/ DrainDone(s) \/ Acquire(s))
  /\ WF_vars(\E e \in DOMAIN exp : ExportBegin(e) \/ RespDeliver(e) \/ RespSkip(e) \/ ExportExit(e)
                                   \/ ExportEnd(e, FALSE) \/ ExportEnd(e, TRUE))
  /\ WF_vars(ShutdownReturn)
  /\ WF_vars(Tick)

=============================================================================
