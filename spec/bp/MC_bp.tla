------------------------------- MODULE MC_bp -------------------------------
(* Model-checking instance of BatchProcessor: canonical assignments of     *)
(* contexts and combinations to callers (names are interchangeable, so     *)
(* only the partition of the callers matters).                             *)
EXTENDS BPProps
F2(a, b) == ("c1" :> a @@ "c2" :> b)
F3(a, b, c) == ("c1" :> a @@ "c2" :> b @@ "c3" :> c)
\* some enumeration of a finite set
Enum(Sx) == CHOOSE s \in [1..Cardinality(Sx) -> Sx] : \A i, j \in DOMAIN s : i # j => s[i] # s[j]
Canon2(N) == LET a == N[1] b == IF Len(N) > 1 THEN N[2] ELSE N[1]
             IN {F2(a, a), F2(a, b)}
Canon3(N) == LET a == N[1] b == IF Len(N) > 1 THEN N[2] ELSE N[1] c == IF Len(N) > 2 THEN N[3] ELSE b
             IN {F3(a, a, a), F3(a, a, b), F3(a, b, a), F3(a, b, b), F3(a, b, c)}
Canon(Sx) == IF Cardinality(Callers) = 2 THEN Canon2(Enum(Sx))
             ELSE IF Cardinality(Callers) = 3 THEN Canon3(Enum(Sx))
             ELSE [Callers -> Sx]
MCCtxAssigns == Canon(Ctxs)
MCComboAssigns == IF Multi THEN Canon(Combos) ELSE {[c \in Callers |-> CHOOSE s \in Combos : TRUE]}
=============================================================================
