------------------------------- MODULE BPObs -------------------------------
(***************************************************************************)
(* Black-box specification of the batch processor: the listed properties   *)
(* C05, C06, C09, C10, C11, C18 stated over histories of externally        *)
(* observable events (calls and their results, what the next consumer is   *)
(* handed and under which context, cancellations, virtual time, Shutdown). *)
(* The only internal event read is EnqueueSend, the linearization point    *)
(* the properties call "accepted" (and AdmitNew for the admitted count).   *)
(*                                                                         *)
(* The module is a deterministic monitor: it consumes the events of many   *)
(* recorded executions (concatenated; "Begin" resets the histories) and    *)
(* accumulates in `viol` every property instance found false.  TLC runs    *)
(* it; a non-empty `viol` at the end is printed by the Report invariant.   *)
(***************************************************************************)
EXTENDS Integers, Sequences, FiniteSets, TLC, Json

CONSTANT TraceFile
Trace == ndJsonDeserialize(TraceFile)

VARIABLES
  i,          \* next event
  cfg,        \* the Begin record of the current execution
  calls,      \* caller -> record
  exps,       \* export id -> record
  cancelled,  \* contexts cancelled so far
  admitted,   \* metadata combinations admitted so far
  shutCalled, shutReturned,
  viol        \* set of <<trace no, property, clause, seq>>

vars == <<i, cfg, calls, exps, cancelled, admitted, shutCalled, shutReturned, viol>>

Empty == [x \in {} |-> 0]
TickMs == 100

Init ==
  /\ i = 1
  /\ cfg = [a |-> 0, b |-> 0, d |-> 0, g |-> 0, h |-> 0, early |-> 0, multi |-> 0, honour |-> 0, tr |-> 0]
  /\ calls = Empty /\ exps = Empty
  /\ cancelled = {} /\ admitted = {}
  /\ shutCalled = FALSE /\ shutReturned = FALSE
  /\ viol = {}

S == cfg.a
M == cfg.b
T == cfg.d
K == cfg.g
L == cfg.h
Early == cfg.early = 1
Multi == cfg.multi = 1
HasTimer == T > 0 /\ S > 0

Range(f) == {f[x] : x \in DOMAIN f}
SeqSet(s) == {s[j] : j \in DOMAIN s}

\* items are triples <<owner, id, digest>>
Owners(items) == {items[j][1] : j \in DOMAIN items}
ExportedItems == UNION {SeqSet(exps[e].items) : e \in DOMAIN exps}
ItemsOfIn(c, e) == {it \in SeqSet(exps[e].items) : it[1] = c}
Carriers(c) == {e \in DOMAIN exps : ItemsOfIn(c, e) # {}}
Ended(e) == exps[e].res # ""
InFlight == {e \in DOMAIN exps : ~Ended(e)}
CtxsOf(items) == {calls[c].x : c \in Owners(items) \cap DOMAIN calls}
CombosOf(items) == {calls[c].combo : c \in Owners(items) \cap DOMAIN calls}
ExportedOf(c) == {it \in ExportedItems : it[1] = c}
\* the concurrency limit is holding exports back (the proviso of C09)
Saturated == K > 0 /\ Cardinality(InFlight) >= K

V(prop, clause, ev) == {<<ev.tr, prop, clause, ev.seq>>}
If(cond, set) == IF cond THEN set ELSE {}

---------------------------------------------------------------------------
\* event handlers: each yields the new histories and the violations found

OnBegin(ev) ==
  /\ cfg' = ev
  /\ calls' = Empty /\ exps' = Empty /\ cancelled' = {} /\ admitted' = {}
  /\ shutCalled' = FALSE /\ shutReturned' = FALSE
  /\ UNCHANGED viol

OnCall(ev) ==
  \* ev.k: the name of the span the request context carries (its own, or one shared with another request context)
  /\ calls' = calls @@ (ev.c :> [n |-> ev.a, x |-> ev.x, sp |-> (IF ev.k = "" THEN ev.x ELSE ev.k), combo |-> ev.s, items |-> ev.items,
                                 accepted |-> FALSE, accT |-> -1, beforeShut |-> FALSE, heldBack |-> FALSE,
                                 ret |-> "none", callAfterShut |-> shutCalled])
  /\ UNCHANGED <<cfg, exps, cancelled, admitted, shutCalled, shutReturned, viol>>

OnEnqueueSend(ev) ==
  /\ calls' = [calls EXCEPT ![ev.c].accepted = TRUE, ![ev.c].accT = ev.t,
                            ![ev.c].beforeShut = ~shutCalled, ![ev.c].heldBack = Saturated]
  /\ admitted' = admitted \cup {calls[ev.c].combo}
  \* a request is handed to a shard although its combination is one too many (e.g. through a shard that was stored but
  \* never admitted)
  /\ viol' = viol \cup If(Multi /\ L > 0 /\ Cardinality(admitted \cup {calls[ev.c].combo}) > L, V("C10", "LimitExceeded", ev))
  /\ UNCHANGED <<cfg, exps, cancelled, shutCalled, shutReturned>>

OnAdmitNew(ev) ==
  /\ admitted' = admitted \cup {ev.s}
  /\ viol' = viol \cup If(L > 0 /\ Cardinality(admitted \cup {ev.s}) > L, V("C10", "LimitExceeded", ev))
  /\ UNCHANGED <<cfg, calls, exps, cancelled, shutCalled, shutReturned>>

OnCancel(ev) ==
  /\ cancelled' = cancelled \cup {ev.x}
  /\ UNCHANGED <<cfg, calls, exps, admitted, shutCalled, shutReturned, viol>>

OnExportBegin(ev) ==
  LET items == ev.items
      known == \A j \in DOMAIN items : items[j][1] \in DOMAIN calls
      genuine == \A j \in DOMAIN items :
                    items[j][1] \in DOMAIN calls => items[j] \in SeqSet(calls[items[j][1]].items)
      nodupIn == \A j, k \in DOMAIN items : j # k => items[j][2] # items[k][2]
      nodupAcross == \A j \in DOMAIN items : \A it \in ExportedItems : it[2] # items[j][2]
      rejected == \E c \in Owners(items) \cap DOMAIN calls : calls[c].ret = "toomany"
      ctxs == CtxsOf(items)
      combos == CombosOf(items)
      one == Cardinality(ctxs) = 1
      theCtx == CHOOSE x \in ctxs : TRUE
      spans == {calls[c].sp : c \in Owners(items) \cap DOMAIN calls}      \* the spans of the contributing requests
      theSpan == CHOOSE x \in spans : TRUE
      late == HasTimer /\ ~shutCalled /\ \E c \in Owners(items) \cap DOMAIN calls :
                 calls[c].accepted /\ ~calls[c].heldBack /\ ev.t > calls[c].accT + T * TickMs
      satNow == K > 0 /\ Cardinality(InFlight) + 1 >= K
      v == If(ev.a # Len(items), V("C05", "CountMismatch", ev))
           \cup If(~known, V("C05", "InventedItem", ev))
           \cup If(~genuine, V("C05", "ContentOrIdentityChanged", ev))
           \cup If(~(nodupIn /\ nodupAcross), V("C05", "Duplicated", ev))
           \cup If(Len(items) = 0, V("C09", "EmptyBatch", ev))
           \cup If(M > 0 /\ Len(items) > M, V("C09", "OverMaxSize", ev))
           \cup If(Multi /\ Cardinality(combos) > 1, V("C10", "TenantsMixed", ev))
           \cup If(Multi /\ Cardinality(combos) = 1 /\ {ev.k} # combos, V("C10", "ExportMetadataDisagrees", ev))
           \cup If(rejected, V("C10", "RejectedItemExported", ev))
           \cup If(K > 0 /\ Cardinality(InFlight) + 1 > K, V("C11", "ConcurrencyExceeded", ev))
           \cup If(late, V("C09", "ExportedAfterDeadline", ev))
           \cup If(ctxs # {} /\ ~one /\ ev.x # "own", V("C18", "MixedBatchUnderCallerContext", ev))
           \cup If(ctxs # {} /\ one /\ ev.x # theCtx, V("C18", "SingleBatchNotUnderItsContext", ev))
           \cup If(ev.d = 1 /\ ctxs # {} /\ one /\ ev.c # theSpan, V("C18", "SingleBatchNotChildOfRequest", ev))
           \cup If(ev.d = 1 /\ ctxs # {} /\ ~one /\ SeqSet(ev.l) # spans, V("C18", "LinksNotTheContributors", ev))
           \cup If(ev.d = 1 /\ ctxs # {} /\ ~one /\ ev.c # "", V("C18", "MixedBatchHasRequestParent", ev))
  IN /\ exps' = exps @@ (ev.e :> [items |-> items, x |-> ev.x, res |-> "", ctxs |-> ctxs, spans |-> spans, t |-> ev.t])
     /\ viol' = viol \cup v
     /\ calls' = IF satNow
                 THEN [c \in DOMAIN calls |->
                         IF calls[c].accepted /\ \E it \in SeqSet(calls[c].items) : it \notin (ExportedItems \cup SeqSet(items))
                         THEN [calls[c] EXCEPT !.heldBack = TRUE] ELSE calls[c]]
                 ELSE calls
     /\ UNCHANGED <<cfg, cancelled, admitted, shutCalled, shutReturned>>

OnExportEnd(ev) ==
  /\ exps' = IF ev.e \in DOMAIN exps THEN [exps EXCEPT ![ev.e].res = ev.k] ELSE exps
  /\ viol' = viol \cup
       If(ev.e \in DOMAIN exps /\ ev.k = "ctxerr" /\ Cardinality(exps[ev.e].ctxs) > 1,
          V("C18", "MixedBatchCancelled", ev))
  /\ UNCHANGED <<cfg, calls, cancelled, admitted, shutCalled, shutReturned>>

OnReturn(ev) ==
  LET c == ev.c
      me == calls[c]
      car == Carriers(c)
      allOut == Cardinality(ExportedOf(c)) = me.n
      allEnded == \A e \in car : Ended(e)
      allOk == \A e \in car : exps[e].res = "ok"
      wr == SeqSet(ev.l)
      ctxDone == me.x \in cancelled
      v == \* ---- C06
           If(~Early /\ me.n > 0 /\ ev.k \in {"nil", "fail"} /\ ~(allOut /\ allEnded),
              V("C06", "ReturnedBeforeAllItemsExported", ev))
           \cup If(~Early /\ me.n > 0 /\ ev.k = "nil" /\ allEnded /\ ~allOk, V("C06", "NilDespiteFailedExport", ev))
           \cup If(~Early /\ ev.k = "fail" /\ allOut /\ allEnded /\ allOk, V("C06", "ErrorDespiteAllOk", ev))
           \cup If(ev.k \in {"fail", "failctx"} /\
                   (wr = {} \/ \E w \in wr : ~(w \in car /\ Ended(w) /\ exps[w].res = "fail")),
                   V("C06", "ErrorDoesNotWrapOwnExportFailure", ev))
           \cup If(ev.k \in {"ctx", "failctx"} /\ ~ctxDone, V("C06", "ContextErrorButContextLive", ev))
           \cup If(ev.k \in {"ctx", "failctx"} /\ ~ctxDone, V("C18", "ForeignCancellationReachedCaller", ev))
           \cup If(ev.k = "other", V("C06", "UnknownError", ev))
           \cup If(Early /\ ev.k \notin {"nil", "ctx", "toomany"}, V("C06", "EarlyReturnNotNil", ev))
           \cup If(Early /\ ev.k = "ctx" /\ ~ctxDone, V("C06", "ContextErrorButContextLive", ev))
           \cup If(me.n = 0 /\ ev.k \notin {"nil", "toomany"}, V("C06", "EmptyRequestNotNil", ev))
           \* ---- C10
           \cup If(ev.k = "toomany" /\ (ev.a # 1 \/ L = 0 \/ ~Multi), V("C10", "RefusalNotPermanentOrNoLimit", ev))
           \cup If(ev.k = "toomany" /\ ExportedOf(c) # {}, V("C10", "RejectedItemExported", ev))
           \cup If(ev.k = "toomany" /\ L > 0 /\ Cardinality(admitted) < L, V("C10", "RefusedBelowLimit", ev))
  IN /\ calls' = [calls EXCEPT ![c].ret = ev.k]
     /\ viol' = viol \cup v
     /\ UNCHANGED <<cfg, exps, cancelled, admitted, shutCalled, shutReturned>>

\* items accepted and not yet handed to the next consumer, per combination
Buffered(s) ==
  UNION { {it \in SeqSet(calls[c].items) : it \notin ExportedItems}
          : c \in {c \in DOMAIN calls : calls[c].accepted /\ calls[c].combo = s} }
CombosSeen == {calls[c].combo : c \in DOMAIN calls}

\* the processor is quiescent (nothing can happen without time passing or a
\* new input): what the size rule demands
RestViol(ev) ==
  If(~Saturated /\ ~shutCalled /\
     \E s \in CombosSeen :
        LET nb == Cardinality(Buffered(s)) IN
          \/ (HasTimer /\ nb >= S)
          \/ (~HasTimer /\ nb > 0),
     V("C09", "NotFlushedAtSize", ev))

\* "if the caller's context ends first the call returns promptly with the context error": at a quiescent point (every
\* gate open, every goroutine blocked for good unless time passes or something new arrives) a call whose context has
\* ended is no longer inside Consume
NotPrompt(ev) ==
  If(\E c \in DOMAIN calls : calls[c].ret = "none" /\ calls[c].x \in cancelled,
     V("C06", "NotPromptAfterContextEnded", ev))

OnQuiet(ev) ==
  /\ viol' = viol \cup RestViol(ev) \cup NotPrompt(ev)
  /\ UNCHANGED <<cfg, calls, exps, cancelled, admitted, shutCalled, shutReturned>>

\* virtual time moves from ev.a to ev.b: no buffered item may be older than T
OnTick(ev) ==
  /\ viol' = viol \cup
       If(HasTimer /\ ~Saturated /\ ~shutCalled /\
          \E c \in DOMAIN calls :
             /\ calls[c].accepted /\ ~calls[c].heldBack      \* heldBack: the concurrency limit delayed it earlier (the proviso)
             /\ \E it \in SeqSet(calls[c].items) : it \notin ExportedItems
             /\ ev.b > calls[c].accT + T * TickMs,
          V("C09", "DeadlineMissed", ev))
  /\ UNCHANGED <<cfg, calls, exps, cancelled, admitted, shutCalled, shutReturned>>

OnShutdownCall(ev) ==
  /\ shutCalled' = TRUE
  /\ UNCHANGED <<cfg, calls, exps, cancelled, admitted, shutReturned, viol>>

OnShutdownReturn(ev) ==
  LET lost == \E c \in DOMAIN calls :
                /\ calls[c].accepted /\ calls[c].beforeShut
                /\ Cardinality(ExportedOf(c)) # calls[c].n
      running == \E e \in DOMAIN exps : ~Ended(e)
  IN /\ shutReturned' = TRUE
     /\ viol' = viol \cup If(lost, V("C05", "LostAtShutdown", ev)) \cup If(lost, V("C11", "ShutdownBeforeDrain", ev))
                     \cup If(running, V("C11", "ShutdownBeforeExportsReturned", ev))
     /\ UNCHANGED <<cfg, calls, exps, cancelled, admitted, shutCalled>>

\* a call (or Shutdown) that can make no further progress although every
\* gate was opened, every held export released and time allowed to pass;
\* calls whose enqueue raced the shutdown drain are the documented exception
OnStuck(ev) ==
  LET excused == ev.k = "call" /\ shutCalled /\ ~(calls[ev.c].accepted /\ calls[ev.c].beforeShut)
  IN /\ viol' = viol \cup
          If(ev.k = "call" /\ ~excused, V("C06", "CallNeverReturns", ev))
          \* a caller whose own context is alive never learns the outcome although a DIFFERENT caller's context was
          \* cancelled: that cancellation made its export (or the delivery of its outcome) be skipped
          \cup If(ev.k = "call" /\ ~excused /\ calls[ev.c].accepted /\ calls[ev.c].x \notin cancelled /\ cancelled # {},
                  V("C18", "CallerStalledAfterForeignCancellation", ev))
          \cup If(ev.k = "call" /\ ~excused, V("C11", "Deadlock", ev))
          \cup If(ev.k = "shutdown", V("C11", "ShutdownNeverReturns", ev))
     /\ UNCHANGED <<cfg, calls, exps, cancelled, admitted, shutCalled, shutReturned>>

OnBackLinks(ev) ==
  /\ viol' = viol \cup
       If(\E e \in DOMAIN exps : Cardinality(exps[e].ctxs) > 1 /\ ev.x \in exps[e].spans /\ e \notin SeqSet(ev.l),
          V("C18", "BackLinkMissing", ev))
  /\ UNCHANGED <<cfg, calls, exps, cancelled, admitted, shutCalled, shutReturned>>

OnEnd(ev) ==
  LET notOnce == \E c \in DOMAIN calls :
                   /\ calls[c].accepted /\ calls[c].beforeShut
                   /\ Cardinality(ExportedOf(c)) # calls[c].n
  IN /\ viol' = viol \cup If(ev.k \in {"leak", "crash"}, V("C11", "GoroutineLeakOrDeadlock", ev))
                     \cup If(ev.k = "ok" /\ notOnce, V("C05", "NotExactlyOnce", ev))
                     \cup If(ev.k = "race", V("C11", "DataRace", ev))
     /\ UNCHANGED <<cfg, calls, exps, cancelled, admitted, shutCalled, shutReturned>>

Skip == UNCHANGED <<cfg, calls, exps, cancelled, admitted, shutCalled, shutReturned, viol>>

Next ==
  /\ i <= Len(Trace)
  /\ i' = i + 1
  /\ LET ev == Trace[i] IN
       CASE ev.ev = "Begin" -> OnBegin(ev)
         [] ev.ev = "Call" -> OnCall(ev)
         [] ev.ev = "EnqueueSend" -> OnEnqueueSend(ev)
         [] ev.ev = "AdmitNew" -> OnAdmitNew(ev)
         [] ev.ev = "Cancel" -> OnCancel(ev)
         [] ev.ev = "ExportBegin" -> OnExportBegin(ev)
         [] ev.ev = "ExportEnd" -> OnExportEnd(ev)
         [] ev.ev = "Return" -> OnReturn(ev)
         [] ev.ev = "Quiet" -> OnQuiet(ev)
         [] ev.ev = "Tick" -> OnTick(ev)
         [] ev.ev = "ShutdownCall" -> OnShutdownCall(ev)
         [] ev.ev = "ShutdownReturn" -> OnShutdownReturn(ev)
         [] ev.ev = "Stuck" -> OnStuck(ev)
         [] ev.ev = "BackLinks" -> OnBackLinks(ev)
         [] ev.ev = "End" -> OnEnd(ev)
         [] OTHER -> Skip

Spec == Init /\ [][Next]_vars

\* evaluated in every state; prints the verdict in the last one
Report == i <= Len(Trace) \/ PrintT(<<"BPOBS-RESULT", Len(Trace), ToJson(viol)>>)
=============================================================================
