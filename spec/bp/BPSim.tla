------------------------------- MODULE BPSim -------------------------------
(***************************************************************************)
(* Behaviour generator: BatchProcessor plus a history variable recording   *)
(* the action sequence; finished behaviours are printed as JSON and        *)
(* replayed into the real processor by the Go harness (harness/bp).        *)
(***************************************************************************)
EXTENDS BPProps, Json
VARIABLE h
Log(a, x) == h' = Append(h, <<a, x>>)
\* an action taken in a rare state is marked "name!tag"; the orchestrator prefers behaviours with rare marks when it
\* chooses which of the simulated behaviours to replay (the mark is stripped before the script is built)
Mark(a, cond, tag) == IF cond THEN a \o "!" \o tag ELSE a

Assign2 == { [c \in {"c1","c2"} |-> "x1"], ("c1" :> "x1" @@ "c2" :> "x2") }
Assign3 == { [c \in {"c1","c2","c3"} |-> "x1"],
             ("c1" :> "x1" @@ "c2" :> "x1" @@ "c3" :> "x2"),
             ("c1" :> "x1" @@ "c2" :> "x2" @@ "c3" :> "x1"),
             ("c1" :> "x1" @@ "c2" :> "x2" @@ "c3" :> "x2"),
             ("c1" :> "x1" @@ "c2" :> "x2" @@ "c3" :> "x3") }
SimCtxAssigns == IF Cardinality(Callers) = 2 /\ {"x1", "x2"} \subseteq Ctxs THEN Assign2
                 ELSE IF Cardinality(Callers) = 3 /\ {"x1", "x2", "x3"} \subseteq Ctxs THEN Assign3
                 ELSE [Callers -> Ctxs]
SimComboAssigns == IF Multi THEN [Callers -> Combos] ELSE { [c \in Callers |-> "one"] }

SimInit == Init /\ h = <<>>
Done == h # <<>> /\ h[Len(h)][1] = "Done"
SimNext ==
  /\ ~Done
  /\ \/ \E c \in Callers :
          \/ Call(c) /\ Log("Call", c)
          \/ AdmitSlow(c) /\ Log("AdmitSlow", c)
          \/ ReturnEmpty(c) /\ Log("ReturnEmpty", c)
          \/ EnqueueSend(c) /\ Log("EnqueueSend", c)
          \/ EnqueueCtxDone(c) /\ Log("EnqueueCtxDone!enqabandon", c)
          \/ RespRecv(c) /\ Log("RespRecv", c)
          \/ WaitCtxDone(c) /\ Log(Mark(Mark("WaitCtxDone", rem[c] < n[c], "partial"), resp[c] # <<>>, "unread"), c)
     \/ \E s \in Combos :
          \/ LoopStart(s) /\ Log("LoopStart", s)
          \/ LoopRecv(s) /\ Log(Mark("LoopRecv", HasTimer /\ cnt[s] > 0 /\ deadline[s] >= 0 /\ deadline[s] < now + T, "trickle"), s)
          \/ DrainRecv(s) /\ Log("DrainRecv", s)
          \/ FlushSplit(s) /\ Log(Mark("FlushSplit", M > 0 /\ cnt[s] > M, "splitrest"), s)
          \/ FlushDone(s) /\ Log("FlushDone", s)
          \/ TimerFire(s) /\ Log("TimerFire", s)
          \/ TimerSplit(s) /\ Log(Mark("TimerSplit", M > 0 /\ cnt[s] > M, "timerpartial"), s)
          \/ TimerRearm(s) /\ Log("TimerRearm", s)
          \/ SeeShutdown(s) /\ Log("SeeShutdown", s)
          \/ DrainDone(s) /\ Log("DrainDone", s)
          \/ Acquire(s) /\ Log(Mark("Acquire", K > 0 /\ sem = K - 1, "lastslot"), s)
     \/ \E e \in DOMAIN exp :
          \/ ExportBegin(e) /\ Log("ExportBegin", e)
          \/ ExportEnd(e, FALSE) /\ Log("ExportEndOk", e)
          \/ ExportEnd(e, TRUE) /\ Log(Mark("ExportEndFail", Cardinality({exp[e].tb[j].c : j \in DOMAIN exp[e].tb}) > 1, "sharedfail"), e)
          \/ RespDeliver(e) /\ Log(Mark("RespDeliver", pc[RespTarget(e).c] # "waiting", "latepark"), e)
          \/ RespSkip(e) /\ Log(Mark(Mark(Mark("RespSkip", Len(resp[RespTarget(e).c]) >= 1, "skipfull"), exp[e].i < Len(exp[e].tb), "skipnotlast"),
                                      Len(resp[RespTarget(e).c]) >= 1 /\ exp[e].kind = "own" /\ exp[e].i < Len(exp[e].tb), "skipfullownnotlast")
                                 \o (IF Len(resp[RespTarget(e).c]) >= 1 /\ exp[e].kind = "own"
                                        /\ \E j \in (exp[e].i + 1)..Len(exp[e].tb) : pc[exp[e].tb[j].c] = "waiting" /\ ~ctxDone[cx[exp[e].tb[j].c]]
                                     THEN "!livebehind" ELSE ""), e)
          \/ ExportExit(e) /\ Log("ExportExit", e)
     \/ \E x \in Ctxs : RandomElement(1..4) = 1 /\ Cancel(x) /\ Log("Cancel", x)
     \/ (RandomElement(1..6) = 1 \/ \A c \in Callers : pc[c] # "idle") /\ RandomElement(1..3) = 1
        /\ ShutdownCall /\ Log("ShutdownCall", 0)
     \/ ShutdownReturn /\ Log("ShutdownReturn", 0)
     \/ Tick /\ Log("Tick", 1)
     \/ Terminal /\ UNCHANGED vars /\ Log("Done", 0)
SimSpec == SimInit /\ [][SimNext]_<<vars, h>>
\* printed once per finished behaviour (also when the depth bound cuts it)
Emit == Done => PrintT(<<"BEHAVIOUR", ToJson([n |-> n, cx |-> cx, cb |-> cb, h |-> h])>>)
=============================================================================
