------------------------------- MODULE BPSim -------------------------------
(***************************************************************************)
(* Behaviour generator: BatchProcessor plus a history variable recording   *)
(* the action sequence; finished behaviours are printed as JSON and        *)
(* replayed into the real processor by the Go harness (harness/bp).        *)
(***************************************************************************)
EXTENDS BPProps, Json
VARIABLE h
Log(a, x) == h' = Append(h, <<a, x>>)

Assign2 == { [c \in {"c1","c2"} |-> "x1"], ("c1" :> "x1" @@ "c2" :> "x2") }
Assign3 == { [c \in {"c1","c2","c3"} |-> "x1"],
             ("c1" :> "x1" @@ "c2" :> "x1" @@ "c3" :> "x2"),
             ("c1" :> "x1" @@ "c2" :> "x2" @@ "c3" :> "x1"),
             ("c1" :> "x1" @@ "c2" :> "x2" @@ "c3" :> "x2"),
             ("c1" :> "x1" @@ "c2" :> "x2" @@ "c3" :> "x3") }
SimCtxAssigns == IF Cardinality(Callers) = 2 /\ {"x1", "x2"} \subseteq Ctxs THEN Assign2
                 ELSE IF Cardinality(Callers) = 3 /\ {"x1", "x2", "x3"} \subseteq Ctxs THEN Assign3
                 ELSE [Callers -> Ctxs]
SimComboAssigns == IF Multi THEN [Callers -> Combos] ELSE { [c \in Callers |-> "one"] }

SimInit == Init /\ h = <<>>
Done == h # <<>> /\ h[Len(h)][1] = "Done"
SimNext ==
  /\ ~Done
  /\ \/ \E c \in Callers :
          \/ Call(c) /\ Log("Call", c)
          \/ AdmitSlow(c) /\ Log("AdmitSlow", c)
          \/ ReturnEmpty(c) /\ Log("ReturnEmpty", c)
          \/ EnqueueSend(c) /\ Log("EnqueueSend", c)
          \/ EnqueueCtxDone(c) /\ Log("EnqueueCtxDone", c)
          \/ RespRecv(c) /\ Log("RespRecv", c)
          \/ WaitCtxDone(c) /\ Log("WaitCtxDone", c)
     \/ \E s \in Combos :
          \/ LoopStart(s) /\ Log("LoopStart", s)
          \/ LoopRecv(s) /\ Log("LoopRecv", s)
          \/ DrainRecv(s) /\ Log("DrainRecv", s)
          \/ FlushSplit(s) /\ Log("FlushSplit", s)
          \/ FlushDone(s) /\ Log("FlushDone", s)
          \/ TimerFire(s) /\ Log("TimerFire", s)
          \/ TimerSplit(s) /\ Log("TimerSplit", s)
          \/ TimerRearm(s) /\ Log("TimerRearm", s)
          \/ SeeShutdown(s) /\ Log("SeeShutdown", s)
          \/ DrainDone(s) /\ Log("DrainDone", s)
          \/ Acquire(s) /\ Log("Acquire", s)
     \/ \E e \in DOMAIN exp :
          \/ ExportBegin(e) /\ Log("ExportBegin", e)
          \/ ExportEnd(e, FALSE) /\ Log("ExportEndOk", e)
          \/ ExportEnd(e, TRUE) /\ Log("ExportEndFail", e)
          \/ RespDeliver(e) /\ Log("RespDeliver", e)
          \/ RespSkip(e) /\ Log("RespSkip", e)
          \/ ExportExit(e) /\ Log("ExportExit", e)
     \/ \E x \in Ctxs : RandomElement(1..4) = 1 /\ Cancel(x) /\ Log("Cancel", x)
     \/ (RandomElement(1..6) = 1 \/ \A c \in Callers : pc[c] # "idle") /\ RandomElement(1..3) = 1
        /\ ShutdownCall /\ Log("ShutdownCall", 0)
     \/ ShutdownReturn /\ Log("ShutdownReturn", 0)
     \/ Tick /\ Log("Tick", 1)
     \/ Terminal /\ UNCHANGED vars /\ Log("Done", 0)
SimSpec == SimInit /\ [][SimNext]_<<vars, h>>
\* printed once per finished behaviour (also when the depth bound cuts it)
Emit == Done => PrintT(<<"BEHAVIOUR", ToJson([n |-> n, cx |-> cx, cb |-> cb, h |-> h])>>)
=============================================================================
