---------------------------- MODULE MC_BPTrace ----------------------------
EXTENDS BPTrace
TraceCtxAssigns == {[c \in Callers |-> CHOOSE x \in Ctxs : TRUE]}
TraceComboAssigns == {[c \in Callers |-> CHOOSE s \in Combos : TRUE]}
=============================================================================
