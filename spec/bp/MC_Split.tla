------------------------------ MODULE MC_Split ------------------------------
EXTENDS Split
W2 == <<3, 2, 2>>        \* traces/logs: <= 3 items per scope, <= 2 scopes per resource, <= 2 resources
W3 == <<2, 2, 2, 2>>     \* metrics: <= 2 points per metric, <= 2 metrics, <= 2 scopes, <= 2 resources
W3q == <<2, 2, 2, 1>>      \* quick tier metrics: one resource
W2big == <<3, 3, 2>>
W3big == <<3, 2, 2, 2>>
=============================================================================
