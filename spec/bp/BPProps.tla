------------------------------ MODULE BPProps ------------------------------
(***************************************************************************)
(* The listed batch-processor properties (C05, C06, C09, C10, C11, C18)    *)
(* stated over the variables of BatchProcessor.  The same statements, over *)
(* histories of externally observable events only, are in BPObs.tla.       *)
(***************************************************************************)
EXTENDS BatchProcessor

Exps == DOMAIN exp
Begun(e) == exp[e].st # "spawned"
Ended(e) == exp[e].st \in {"resp", "fin", "gone"}

RECURSIVE SumOver(_, _)
SumOver(es, c) == IF es = {} THEN 0
                  ELSE LET e == CHOOSE x \in es : TRUE
                       IN SumFor(exp[e].tb, c) + SumOver(es \ {e}, c)

Carried(c)     == SumOver({e \in Exps : Begun(e)}, c)      \* items handed to the next consumer
Apportioned(c) == SumOver(Exps, c) + SumFor(cur[ShardOf(c)], c)
InChan(c)      == IF \E j \in DOMAIN chan[ShardOf(c)] : chan[ShardOf(c)][j] = c THEN n[c] ELSE 0
Carriers(c)    == {e \in Exps : SumFor(exp[e].tb, c) > 0}
Accepted(c)    == accAt[c] >= 0

TypeOK ==
  /\ pc \in [Callers -> {"idle", "missed", "try", "waiting", "returned"}]
  /\ ret \in [Callers -> {"none", "nil", "fail", "ctx", "failctx", "toomany"}]
  /\ \A s \in Combos : Len(chan[s]) <= Q /\ cnt[s] >= 0
  /\ \A c \in Callers : Len(resp[c]) <= 1
  /\ sem >= 0

---------------------------------------------------------------------------
\* C05  exactly once (content and container identity are by construction in
\*      this model: a contributor entry [c,k] stands for the next k items of c;
\*      Split.tla and BPObs decide them on trees and on real exports)
NoDup == \A c \in Callers : Apportioned(c) <= n[c]
Conserve == \A c \in Callers :
  Accepted(c) => Apportioned(c) + SumFor(pending[ShardOf(c)], c) + InChan(c) = n[c]
NotInvented == \A c \in Callers : ~Accepted(c) => Apportioned(c) + SumFor(pending[ShardOf(c)], c) = 0
BatchConsistent ==
  /\ \A e \in Exps : SumK(exp[e].tb) = exp[e].sent
  /\ \A s \in Combos : SumK(pending[s]) = cnt[s] /\ (cur[s] # <<>> => SumK(cur[s]) = curSent[s])
NothingLost == shut = "returned" =>
  \A c \in accBeforeShut : Carried(c) = n[c] /\ \A e \in Carriers(c) : Ended(e)

\* C06  true outcome
NilIsTrue == \A c \in Callers : (ret[c] = "nil" /\ ~Early /\ n[c] > 0) =>
  /\ Carried(c) = n[c]
  /\ \A e \in Carriers(c) : Ended(e) /\ ~exp[e].fail
FailIsTrue == \A c \in Callers : ret[c] \in {"fail", "failctx"} =>
  /\ errs[c] # {}
  /\ \A e \in errs[c] : e \in Carriers(c) /\ Ended(e) /\ exp[e].fail
ReturnAfterAll == \A c \in Callers : (ret[c] \in {"nil", "fail"} /\ ~Early /\ n[c] > 0) =>
  /\ Carried(c) = n[c] /\ \A e \in Carriers(c) : Ended(e)
  /\ (ret[c] = "nil" <=> \A e \in Carriers(c) : ~exp[e].fail)
CtxOnlyIfDone == \A c \in Callers : ret[c] \in {"ctx", "failctx"} => ctxDone[cx[c]]
EarlyNil == Early => \A c \in Callers : pc[c] = "returned" => ret[c] \in {"nil", "ctx", "toomany"}
NoOverAnswer == \A c \in Callers : rem[c] >= 0

\* C09  sizes and deadlines
SizeOK ==
  /\ \A e \in Exps : exp[e].sent > 0 /\ (M > 0 => exp[e].sent <= M)
  /\ \A s \in Combos : cur[s] # <<>> => curSent[s] > 0 /\ (M > 0 => curSent[s] <= M)
HeldBack(s) == st[s] \in AcqStates            \* waiting for the semaphore (the proviso)
\* whenever the processor is quiescent, nothing that should have been sent is buffered
FlushedAtRest == ~Busy => \A s \in Combos : (Started(s) /\ ~HeldBack(s) /\ st[s] # "exited") =>
  /\ chan[s] = <<>>
  /\ (HasTimer => cnt[s] < S)
  /\ (~HasTimer => cnt[s] = 0)
\* time never passes a buffered item's deadline
AtTickOK == \A s \in Combos : (st[s] = "sel") =>
  /\ (cnt[s] > 0 => deadline[s] >= 0)
  /\ \A j \in DOMAIN pending[s] : now + 1 <= accAt[pending[s][j].c] + T
DeadlineOK == [][(now' = now + 1) => AtTickOK]_vars

\* C10  tenants and cardinality
OneCombo ==
  /\ \A e \in Exps : \A j \in DOMAIN exp[e].tb : cb[exp[e].tb[j].c] = exp[e].s
  /\ \A s \in Combos : \A j \in DOMAIN pending[s] : cb[pending[s][j].c] = s
LimitOK == Multi =>
  /\ (L > 0 => Cardinality(stored) <= L)
  /\ size = Cardinality(stored)
  /\ \A s \in Combos : Started(s) <=> s \in stored
RejectedOK == \A c \in Callers : ret[c] = "toomany" =>
  /\ L > 0 /\ size >= L
  /\ ~Accepted(c) /\ Apportioned(c) = 0

\* C11  concurrency bound, shutdown
ConcBound == K > 0 => (sem <= K /\ Cardinality({e \in Exps : exp[e].st = "begun"}) <= K)
SemIsLive == sem = Cardinality({e \in Exps : exp[e].st # "gone"})
ShutdownOK == shut = "returned" =>
  /\ NothingLost
  /\ \A c \in accBeforeShut : st[ShardOf(c)] = "exited" /\ \A e \in Carriers(c) : exp[e].st = "gone"
ShutLive == (shut = "closed") ~> (shut = "returned")
CallsReturn == \A c \in Callers :
  (pc[c] \in {"missed", "try", "waiting"}) ~> (pc[c] = "returned" \/ Straggler(c))

\* C18  contexts
CtxRule == \A e \in Exps : Begun(e) =>
  exp[e].kind = (IF Cardinality(CtxSet(exp[e].tb)) = 1 THEN cx[exp[e].tb[1].c] ELSE "own")
Isolation == \A e \in Exps : exp[e].ctxerr => Cardinality(CtxSet(exp[e].tb)) = 1
NoCollateral == \A c \in Callers : \A e \in errs[c] : exp[e].ctxerr => ctxDone[cx[c]]
=============================================================================
