------------------------------ MODULE SplitFn ------------------------------
(***************************************************************************)
(* splitTraces / splitLogs / splitMetrics (+ splitMetric) of the batch     *)
(* processor, transcribed.  The three functions are one pattern applied    *)
(* level by level (resource -> scope -> [metric ->] item):                 *)
(*   once `size` items have been taken every remaining node stays;         *)
(*   a node that fits entirely is moved as a whole;                        *)
(*   otherwise a new destination node carrying a COPY OF THE IDENTITY of   *)
(*   the source node is created and the rule is applied to its children.   *)
(* A node is [id, kids]; at depth 0 a node is an item (just its id).       *)
(* TLC enumerates every tree within the bounds and every size, checks the  *)
(* C05/C09 statements on the specification's result, and prints the cases  *)
(* so that harness/bp runs the real functions on them (SplitObs.tla).      *)
(***************************************************************************)
EXTENDS Integers, Sequences, FiniteSets, TLC, Json

CONSTANTS Depth,      \* 2: traces and logs (resource, scope, item); 3: metrics (resource, scope, metric, point)
          MaxWidth,   \* MaxWidth[d] = max number of children of a node at depth d (d in 1..Depth), MaxWidth[Depth+1] = max resources
          MutStaleRoom   \* mutant: the remaining room is computed once per node instead of per child

Min(a, b) == IF a < b THEN a ELSE b

RECURSIVE Count(_, _)
RECURSIVE SumCount(_, _)
SumCount(nodes, d) == IF nodes = <<>> THEN 0 ELSE Count(Head(nodes), d) + SumCount(Tail(nodes), d)
Count(node, d) == IF d = 0 THEN 1 ELSE SumCount(node.kids, d - 1)

\* <<moved to dest, kept in src, items taken so far>>
RECURSIVE SplitSeq(_, _, _, _, _)
SplitSeq(nodes, d, total, size, room0) ==
  IF nodes = <<>> THEN <<<<>>, <<>>, total>>
  ELSE LET h == Head(nodes)
           c == Count(h, d)
           room == IF MutStaleRoom /\ d = Depth - 1 THEN room0 ELSE size - total
       IN IF total = size THEN <<<<>>, nodes, total>>
          ELSE IF c <= room
          THEN LET r == SplitSeq(Tail(nodes), d, total + c, size, room0) IN <<<<h>> \o r[1], r[2], r[3]>>
          ELSE LET inner == SplitSeq(h.kids, d - 1, total, size, size - total)
                   r == SplitSeq(Tail(nodes), d, inner[3], size, room0)
                   kept == IF d = Depth /\ inner[2] = <<>> THEN <<>> ELSE <<[id |-> h.id, kids |-> inner[2]]>>
               IN <<<<[id |-> h.id, kids |-> inner[1]]>> \o r[1], kept \o r[2], r[3]>>

Split(tree, size) == LET r == SplitSeq(tree, Depth, 0, size, size) IN <<r[1], r[2]>>

\* ---- all shapes within the bounds; a shape at depth 1 is an item count
RECURSIVE Shapes(_)
Shapes(d) == IF d = 1 THEN 0..MaxWidth[1]
             ELSE UNION {[1..w -> Shapes(d - 1)] : w \in 0..MaxWidth[d]}
TopShapes == UNION {[1..w -> Shapes(Depth)] : w \in 1..MaxWidth[Depth + 1]}

\* ---- materialisation: ids are paths
RECURSIVE Mat(_, _, _)
Mat(shape, d, path) ==
  IF d = 1 THEN [id |-> path, kids |-> [k \in 1..shape |-> Append(path, k)]]
  ELSE [id |-> path, kids |-> [k \in 1..Len(shape) |-> Mat(shape[k], d - 1, Append(path, k))]]
Tree(shape) == [k \in 1..Len(shape) |-> Mat(shape[k], Depth, <<k>>)]

RECURSIVE Items(_, _)
RECURSIVE ItemsOf(_, _)
ItemsOf(nodes, d) == IF nodes = <<>> THEN <<>> ELSE Items(Head(nodes), d) \o ItemsOf(Tail(nodes), d)
Items(node, d) == IF d = 0 THEN <<node>> ELSE ItemsOf(node.kids, d - 1)

\* every item sits under containers whose ids are prefixes of its own id (identity preserved)
RECURSIVE PathsOk(_, _)
PathsOk(node, d) == IF d = 0 THEN TRUE
                    ELSE \A k \in DOMAIN node.kids :
                           /\ (IF d = 1 THEN SubSeq(node.kids[k], 1, Len(node.id)) = node.id
                               ELSE SubSeq(node.kids[k].id, 1, Len(node.id)) = node.id)
                           /\ PathsOk(node.kids[k], d - 1)

=============================================================================
