------------------------------ MODULE SplitObs ------------------------------
(***************************************************************************)
(* Judges what the real splitTraces / splitLogs / splitMetrics returned on *)
(* the cases enumerated by Split.tla (one NDJSON record per case and       *)
(* signal, written by harness/bp TestSplitVectors): the property clauses   *)
(* (exactly once in order, exact size, container identity) on the ACTUAL   *)
(* result, and conformance of the actual result with Split(tree, size).    *)
(***************************************************************************)
EXTENDS SplitFn
CONSTANT TraceFile
Trace == ndJsonDeserialize(TraceFile)
VARIABLES i, viol, drift
ovars == <<i, viol, drift>>

\* harness node: <<path, identityOk, kids>>; items are <<path, contentOk>>
RECURSIVE Conv(_, _)
Conv(x, d) == IF d = 0 THEN x[1] ELSE [id |-> x[1], kids |-> [k \in DOMAIN x[3] |-> Conv(x[3][k], d - 1)]]
ConvSeq(xs, d) == [k \in DOMAIN xs |-> Conv(xs[k], d)]
RECURSIVE AllOk(_, _)
AllOk(x, d) == IF d = 0 THEN x[2] = 1 ELSE x[2] = 1 /\ \A k \in DOMAIN x[3] : AllOk(x[3][k], d - 1)

OInit == i = 1 /\ viol = {} /\ drift = {}
ONext ==
  /\ i <= Len(Trace)
  /\ i' = i + 1
  /\ LET e == Trace[i]
         dest == ConvSeq(e.dest, Depth)
         keep == ConvSeq(e.keep, Depth)
         tree == Tree(e.shape)
         expected == Split(tree, e.size)
         total == SumCount(tree, Depth)
         part == ItemsOf(dest, Depth) \o ItemsOf(keep, Depth) = ItemsOf(tree, Depth)
         sizeOk == SumCount(dest, Depth) = e.size /\ SumCount(keep, Depth) = total - e.size
         ident == (\A k \in DOMAIN e.dest : AllOk(e.dest[k], Depth)) /\ (\A k \in DOMAIN e.keep : AllOk(e.keep[k], Depth))
                  /\ (\A k \in DOMAIN dest : PathsOk(dest[k], Depth)) /\ (\A k \in DOMAIN keep : PathsOk(keep[k], Depth))
     IN /\ viol' = viol \cup (IF part THEN {} ELSE {<<e.n, "C05", "SplitNotExactlyOnceInOrder">>})
                       \cup (IF sizeOk THEN {} ELSE {<<e.n, "C09", "SplitFragmentSizeWrong">>})
                       \cup (IF ident THEN {} ELSE {<<e.n, "C05", "SplitFragmentLosesIdentityOrContent">>})
        /\ drift' = drift \cup (IF <<dest, keep>> = expected THEN {} ELSE {e.n})
OSpec == OInit /\ [][ONext]_ovars
Report == i <= Len(Trace) \/ PrintT(<<"SPLITOBS-RESULT", Len(Trace), ToJson(viol), ToJson(drift)>>)
=============================================================================
