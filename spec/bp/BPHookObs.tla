----------------------------- MODULE BPHookObs -----------------------------
(***************************************************************************)
(* Monitor over the hook events alone (the verif-tagged linearization      *)
(* points of batch_processor.go written by the environment tracer,         *)
(* VERIF_TRACE_FILE).  It needs no harness: it is run over the traces the  *)
(* repository's own test-suite emits when it is built with the tag, so     *)
(* every scenario the maintainers wrote is judged at every step, whatever  *)
(* its own assertions look at.                                             *)
(*                                                                         *)
(* Events: [tr, seq, ev, owner, ctx, tok, n] with n a sequence of 8        *)
(* integers; owner/ctx/tok are small integers naming objects (0 = none).   *)
(* "Begin" starts the trace of another test.                               *)
(*                                                                         *)
(* Statement-level clauses (verdicts):                                     *)
(*   C09 EmptyBatch, OverMaxSize, NotFlushedAtSize, TimerDidNotFlush       *)
(*   C11 ConcurrencyExceeded, WorkAfterLoopExit                            *)
(*   C05 ItemsLeftAtLoopExit                                               *)
(*   C06 AnsweredMoreThanSent, ExportExitBeforeAllAnswered                 *)
(* Accounting clauses (property "HOOK": the events do not add up the way   *)
(* BatchProcessor.tla's shard does; reported as drift, not as a verdict):  *)
(*   PendingDrift, SendDrift, ContributorsDoNotCover, IdNotCumulative      *)
(***************************************************************************)
EXTENDS Integers, Sequences, FiniteSets, TLC, Json

CONSTANT TraceFile
Trace == ndJsonDeserialize(TraceFile)

VARIABLES
  i,
  cfg,       \* processor -> [S, M, T, K, early]
  shard,     \* shard -> [proc, timer, pend, last, exited, fired, firedSends]
  exps,      \* <<shard, id>> -> [sent, ncontrib, csum, answered, state]
  inflight,  \* processor -> exports holding a semaphore slot
  need,      \* waiter -> items enqueued
  recv,      \* waiter -> items answered so far
  viol

vars == <<i, cfg, shard, exps, inflight, need, recv, viol>>

Empty == [x \in {} |-> 0]
Put(f, k, v) == [x \in DOMAIN f \cup {k} |-> IF x = k THEN v ELSE f[x]]
Get(f, k, d) == IF k \in DOMAIN f THEN f[k] ELSE d

Init == /\ i = 1 /\ cfg = Empty /\ shard = Empty /\ exps = Empty /\ inflight = Empty /\ need = Empty /\ recv = Empty /\ viol = {}

V(prop, clause, ev) == {<<ev.tr, prop, clause, ev.seq>>}
If(cond, set) == IF cond THEN set ELSE {}

NoCfg == [S |-> 0, M |-> 0, T |-> 0, K |-> 0, early |-> 0]
NoShard == [proc |-> 0, timer |-> 0, pend |-> 0, last |-> 0, exited |-> FALSE, fired |-> FALSE, firedPend |-> 0, firedSends |-> 0, known |-> FALSE]
Sh(ev) == Get(shard, ev.owner, NoShard)
CfgOf(s) == Get(cfg, Get(shard, s, NoShard).proc, NoCfg)

Same == UNCHANGED <<cfg, shard, exps, inflight, need, recv>>

OnBegin(ev) == /\ cfg' = Empty /\ shard' = Empty /\ exps' = Empty /\ inflight' = Empty /\ need' = Empty /\ recv' = Empty /\ UNCHANGED viol

OnNew(ev) ==
  /\ cfg' = Put(cfg, ev.owner, [S |-> ev.n[1], M |-> ev.n[2], T |-> ev.n[3], K |-> ev.n[4], early |-> ev.n[5]])
  /\ inflight' = Put(inflight, ev.owner, 0)
  /\ UNCHANGED <<shard, exps, need, recv, viol>>

OnLoopStart(ev) ==
  /\ shard' = Put(shard, ev.owner, [NoShard EXCEPT !.proc = ev.tok, !.timer = ev.n[1], !.known = TRUE])
  /\ UNCHANGED <<cfg, exps, inflight, need, recv, viol>>

\* a shard seen from its first event on (LoopStart) is followed; others (none in practice) are ignored
Known(ev) == Sh(ev).known

OnProcessItem(ev) ==
  LET s == Sh(ev) IN
  /\ shard' = Put(shard, ev.owner, [s EXCEPT !.pend = ev.n[2]])
  /\ viol' = viol \cup If(ev.n[2] # s.pend + ev.n[1], V("HOOK", "PendingDrift", ev))
                  \cup If(s.exited, V("C11", "WorkAfterLoopExit", ev))
  /\ UNCHANGED <<cfg, exps, inflight, need, recv>>

\* SendItems: n = <<cumulative id, sent, contributors, trigger, pending after>>
OnSendItems(ev) ==
  LET s == Sh(ev)  c == CfgOf(ev.owner)  id == ev.n[1]  sent == ev.n[2] IN
  /\ shard' = Put(shard, ev.owner, [s EXCEPT !.pend = ev.n[5], !.last = id, !.firedSends = IF s.fired THEN s.firedSends + 1 ELSE 0])
  /\ exps' = Put(exps, <<ev.owner, id>>, [sent |-> sent, ncontrib |-> ev.n[3], csum |-> 0, answered |-> 0, state |-> "sent"])
  /\ viol' = viol \cup If(sent <= 0, V("C09", "EmptyBatch", ev))
                  \cup If(c.M > 0 /\ sent > c.M, V("C09", "OverMaxSize", ev))
                  \cup If(ev.n[5] # s.pend - sent, V("HOOK", "SendDrift", ev))
                  \cup If(id # s.last + sent, V("HOOK", "IdNotCumulative", ev))
                  \cup If(s.exited, V("C11", "WorkAfterLoopExit", ev))
  /\ UNCHANGED <<cfg, inflight, need, recv>>

\* Contributor: tok = waiter, n = <<id, index, count>>
OnContributor(ev) ==
  LET k == <<ev.owner, ev.n[1]>> IN
  /\ exps' = IF k \in DOMAIN exps THEN [exps EXCEPT ![k].csum = @ + ev.n[3]] ELSE exps
  /\ UNCHANGED <<cfg, shard, inflight, need, recv, viol>>

OnSemAcquired(ev) ==
  LET p == Sh(ev).proc  c == CfgOf(ev.owner)  k == <<ev.owner, ev.n[1]>>  now == Get(inflight, p, 0) + 1 IN
  /\ inflight' = Put(inflight, p, now)
  /\ exps' = IF k \in DOMAIN exps THEN [exps EXCEPT ![k].state = "slot"] ELSE exps
  /\ viol' = viol \cup If(c.K > 0 /\ now > c.K, V("C11", "ConcurrencyExceeded", ev))
                  \cup If(k \in DOMAIN exps /\ exps[k].csum # exps[k].sent, V("HOOK", "ContributorsDoNotCover", ev))
  /\ UNCHANGED <<cfg, shard, need, recv>>

\* RespDelivered / RespSkipped: tok = waiter, n = <<id, count>>
OnAnswered(ev) ==
  LET k == <<ev.owner, ev.n[1]>> IN
  /\ exps' = IF k \in DOMAIN exps THEN [exps EXCEPT ![k].answered = @ + 1] ELSE exps
  /\ UNCHANGED <<cfg, shard, inflight, need, recv, viol>>

OnExportExit(ev) ==
  LET p == Sh(ev).proc  k == <<ev.owner, ev.n[1]>> IN
  /\ inflight' = Put(inflight, p, Get(inflight, p, 0) - 1)
  /\ exps' = IF k \in DOMAIN exps THEN [exps EXCEPT ![k].state = "exited"] ELSE exps
  \* (with early_return nobody waits for the export: no answers are owed)
  /\ viol' = viol \cup If(CfgOf(ev.owner).early = 0 /\ k \in DOMAIN exps /\ exps[k].state = "slot" /\ exps[k].answered # exps[k].ncontrib,
                          V("C06", "ExportExitBeforeAllAnswered", ev))
  /\ UNCHANGED <<cfg, shard, need, recv>>

\* FlushDone: n = <<pending, sent something>>
OnFlushDone(ev) ==
  LET s == Sh(ev)  c == CfgOf(ev.owner) IN
  /\ viol' = viol \cup If(ev.n[1] # s.pend, V("HOOK", "PendingDrift", ev))
                  \cup If(s.timer = 1 /\ c.S > 0 /\ ev.n[1] >= c.S, V("C09", "NotFlushedAtSize", ev))
                  \cup If(s.timer = 0 /\ ev.n[1] > 0, V("C09", "NotFlushedAtSize", ev))
  /\ Same

OnTimerFire(ev) ==
  LET s == Sh(ev) IN
  /\ shard' = Put(shard, ev.owner, [s EXCEPT !.fired = TRUE, !.firedPend = ev.n[1], !.firedSends = 0])
  /\ viol' = viol \cup If(ev.n[1] # s.pend, V("HOOK", "PendingDrift", ev))
  /\ UNCHANGED <<cfg, exps, inflight, need, recv>>

\* Rearm: n[1] = 0 after a timer expiry, 1 after a size flush
OnRearm(ev) ==
  LET s == Sh(ev) IN
  /\ shard' = Put(shard, ev.owner, [s EXCEPT !.fired = FALSE])
  /\ viol' = viol \cup If(ev.n[1] = 0 /\ s.fired /\ s.firedPend > 0 /\ s.firedSends = 0, V("C09", "TimerDidNotFlush", ev))
  /\ UNCHANGED <<cfg, exps, inflight, need, recv>>

OnLoopExit(ev) ==
  LET s == Sh(ev) IN
  /\ shard' = Put(shard, ev.owner, [s EXCEPT !.exited = TRUE])
  /\ viol' = viol \cup If(ev.n[1] > 0, V("C05", "ItemsLeftAtLoopExit", ev))
  /\ UNCHANGED <<cfg, exps, inflight, need, recv>>

\* EnqueueSend: tok = waiter, n[1] = items
OnEnqueueSend(ev) ==
  /\ need' = Put(need, ev.tok, ev.n[1]) /\ recv' = Put(recv, ev.tok, 0)
  /\ UNCHANGED <<cfg, shard, exps, inflight, viol>>

\* RespRecv: tok = waiter, n = <<count, failed>>
OnRespRecv(ev) ==
  LET r == Get(recv, ev.tok, 0) + ev.n[1] IN
  /\ recv' = Put(recv, ev.tok, r)
  /\ viol' = viol \cup If(ev.tok \in DOMAIN need /\ r > need[ev.tok], V("C06", "AnsweredMoreThanSent", ev))
  /\ UNCHANGED <<cfg, shard, exps, inflight, need>>

Skip == Same /\ UNCHANGED viol

Next ==
  /\ i <= Len(Trace)
  /\ i' = i + 1
  /\ LET ev == Trace[i] IN
     CASE ev.ev = "Begin" -> OnBegin(ev)
       [] ev.ev = "New" -> OnNew(ev)
       [] ev.ev = "LoopStart" -> OnLoopStart(ev)
       [] ev.ev = "ProcessItem" /\ Known(ev) -> OnProcessItem(ev)
       [] ev.ev = "SendItems" /\ Known(ev) -> OnSendItems(ev)
       [] ev.ev = "Contributor" /\ Known(ev) -> OnContributor(ev)
       [] ev.ev = "SemAcquired" /\ Known(ev) -> OnSemAcquired(ev)
       [] ev.ev \in {"RespDelivered", "RespSkipped"} /\ Known(ev) -> OnAnswered(ev)
       [] ev.ev = "ExportExit" /\ Known(ev) -> OnExportExit(ev)
       [] ev.ev = "FlushDone" /\ Known(ev) -> OnFlushDone(ev)
       [] ev.ev = "TimerFire" /\ Known(ev) -> OnTimerFire(ev)
       [] ev.ev = "Rearm" /\ Known(ev) -> OnRearm(ev)
       [] ev.ev = "LoopExit" /\ Known(ev) -> OnLoopExit(ev)
       [] ev.ev = "EnqueueSend" -> OnEnqueueSend(ev)
       [] ev.ev = "RespRecv" -> OnRespRecv(ev)
       [] OTHER -> Skip

Spec == Init /\ [][Next]_vars
Report == i <= Len(Trace) \/ PrintT(<<"BPHOOKOBS-RESULT", Len(Trace), ToJson(viol)>>)
=============================================================================
