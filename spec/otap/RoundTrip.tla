----------------------------- MODULE RoundTrip -----------------------------
(***************************************************************************)
(* The data-level oracle of C01-C04: when are two batches of telemetry     *)
(* "the same telemetry"?  Batches are lists of items (spans / log records  *)
(* / metrics) in the generic node form produced by harness/otap/dump.go:   *)
(*   node  = [f: seq of leaves, a: seq of <<key, value>>, v: seq of values,*)
(*            q: seq of seq of leaves, k: seq of <<name, seq of node>>]    *)
(*   value = <<tag, payload, class>>, tag in s i d b x u l m               *)
(* f, v, q are ordered; a is a set; every k entry is a bag of child nodes  *)
(* (resource and scope are single-child bags, so ownership is part of the  *)
(* item).  Exactly the documented normalisations are applied, to BOTH      *)
(* sides (they are permitted, not required):                               *)
(*  N1 attributes with an empty key or an unset value are dropped          *)
(*  N2 an empty byte string nested in a list/map value is an unset value   *)
(*  N3 -0.0 = 0.0, all NaNs are one value                                  *)
(*  N4 grouping and order of resource/scope/record/event/link lists is     *)
(*     free (bags; resource and scope content travels with each item)      *)
(***************************************************************************)
EXTENDS Integers, Sequences, FiniteSets

Range(s) == {s[i] : i \in DOMAIN s}
BagOf(s) == [x \in Range(s) |-> Cardinality({i \in DOMAIN s : s[i] = x})]

EmptyKey == "="          \* dump.go renders the empty string as "="
Unset == <<"u", "", "">>

RECURSIVE NormVal(_, _)
NormVal(v, nested) ==
  CASE v[1] = "x" -> (IF nested /\ v[3] = "0" THEN Unset ELSE v)                    \* N2
    [] v[1] = "d" -> (IF v[3] = "nan" THEN <<"d", "nan", "nan">>                    \* N3
                      ELSE IF v[3] = "negzero" THEN <<"d", "0000000000000000", "num">>
                      ELSE v)
    [] v[1] = "l" -> <<"l", [i \in DOMAIN v[2] |-> NormVal(v[2][i], TRUE)], "">>
    [] v[1] = "m" -> <<"m", {<<v[2][i][1], NormVal(v[2][i][2], TRUE)>> : i \in DOMAIN v[2]}, "">>
    [] OTHER -> v

NormLeaves(f) == [i \in DOMAIN f |-> NormVal(f[i], FALSE)]

\* N1: top-level attribute maps are sets of pairs without empty keys / unset values
NormAttrs(a) ==
  {<<a[i][1], NormVal(a[i][2], FALSE)>> : i \in {j \in DOMAIN a : a[j][1] # EmptyKey /\ a[j][2][1] # "u"}}

RECURSIVE NormNode(_)
NormNode(n) ==
  [f |-> NormLeaves(n.f),
   a |-> NormAttrs(n.a),
   v |-> NormLeaves(n.v),
   q |-> [i \in DOMAIN n.q |-> NormLeaves(n.q[i])],
   k |-> {<<n.k[i][1], BagOf([j \in DOMAIN n.k[i][2] |-> NormNode(n.k[i][2][j])])>> : i \in DOMAIN n.k}]

NormBatch(items) == BagOf([i \in DOMAIN items |-> NormNode(items[i])])
Equivalent(in, out) == NormBatch(in) = NormBatch(out)

\* self-checks of the oracle (model checked on small values in MC_RoundTrip)
Idempotent(items) == LET b == NormBatch(items) IN TRUE
=============================================================================
