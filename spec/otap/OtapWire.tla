------------------------------ MODULE OtapWire ------------------------------
(***************************************************************************)
(* The relational layer of the OTAP wire protocol: how the rows of the     *)
(* records of one BatchArrowRecords refer to each other, as an independent *)
(* Arrow reader sees them - binding the PRODUCER ALONE to the protocol     *)
(* (the round-trip oracle binds producer and consumer together, and is     *)
(* blind to a deviation both sides share).                                 *)
(*                                                                         *)
(*  - `id` columns are delta encoded over their non-null rows (16-bit ids  *)
(*    wrap modulo 2^16); main records carry delta encoded `resource.id`    *)
(*    and `scope.id`;                                                      *)
(*  - `parent_id` of data-point tables is delta encoded over all rows;     *)
(*  - `parent_id` of attribute, event, link and exemplar tables is delta   *)
(*    encoded WITHIN A GROUP: a row whose group token (attribute key +     *)
(*    scalar value; event name; link trace id; exemplar value) equals the  *)
(*    previous row's carries a delta, any other row an absolute id; lists, *)
(*    maps, unset values and NaN never form a group; an exemplar without a *)
(*    value carries a delta and leaves the remembered value alone.         *)
(*                                                                         *)
(* Decoded that way, every batch must satisfy                              *)
(*   IdsIncrease   the ids of a table are strictly increasing              *)
(*   Referential   every parent id is an id of the parent table            *)
(*   Conserved     attribute sets per parent, children per parent, are the *)
(*                 input's (bags; resource / scope attribute sets as sets, *)
(*                 the producer may merge equal ones), under the           *)
(*                 normalisations of RoundTrip.tla applied to both sides   *)
(*   Owned         every main row, with the attribute sets its id, its     *)
(*                 resource id and its scope id select, is an input item   *)
(*                 with its own, its resource's and its scope's attributes *)
(*                 (as bags): ownership, not only content, on the wire     *)
(* Input: one NDJSON record per small emitted batch (harness/otap/         *)
(* wiretab.go): the input nodes and, per payload, the raw columns.         *)
(* A deviation is DRIFT of the producer from this specification, never a   *)
(* verdict about a listed property by itself.                              *)
(***************************************************************************)
EXTENDS RoundTrip, TLC, Json

CONSTANT TraceFile
Trace == ndJsonDeserialize(TraceFile)
VARIABLES i, drift, nrows
vars == <<i, drift, nrows>>

NULL == -2147483647
Add(w, a, b) == IF w = 16 THEN (a + b) % 65536 ELSE a + b

MainTypes == {"SPANS", "LOGS", "UNIVARIATE_METRICS"}
DPTypes == {"NUMBER_DATA_POINTS", "SUMMARY_DATA_POINTS", "HISTOGRAM_DATA_POINTS", "EXP_HISTOGRAM_DATA_POINTS"}
\* child table -> <<parent table, column of the parent that holds the ids>>
ParentOf(pt) ==
  CASE pt = "RESOURCE_ATTRS" -> <<"main", "rid">>
    [] pt = "SCOPE_ATTRS" -> <<"main", "sid">>
    [] pt \in {"SPAN_ATTRS", "SPAN_EVENTS", "SPAN_LINKS"} -> <<"SPANS", "id">>
    [] pt = "SPAN_EVENT_ATTRS" -> <<"SPAN_EVENTS", "id">>
    [] pt = "SPAN_LINK_ATTRS" -> <<"SPAN_LINKS", "id">>
    [] pt = "LOG_ATTRS" -> <<"LOGS", "id">>
    [] pt \in DPTypes -> <<"UNIVARIATE_METRICS", "id">>
    [] pt = "NUMBER_DP_ATTRS" -> <<"NUMBER_DATA_POINTS", "id">>
    [] pt = "SUMMARY_DP_ATTRS" -> <<"SUMMARY_DATA_POINTS", "id">>
    [] pt = "HISTOGRAM_DP_ATTRS" -> <<"HISTOGRAM_DATA_POINTS", "id">>
    [] pt = "EXP_HISTOGRAM_DP_ATTRS" -> <<"EXP_HISTOGRAM_DATA_POINTS", "id">>
    [] pt = "NUMBER_DP_EXEMPLARS" -> <<"NUMBER_DATA_POINTS", "id">>
    [] pt = "HISTOGRAM_DP_EXEMPLARS" -> <<"HISTOGRAM_DATA_POINTS", "id">>
    [] pt = "EXP_HISTOGRAM_DP_EXEMPLARS" -> <<"EXP_HISTOGRAM_DATA_POINTS", "id">>
    [] pt = "NUMBER_DP_EXEMPLAR_ATTRS" -> <<"NUMBER_DP_EXEMPLARS", "id">>
    [] pt = "HISTOGRAM_DP_EXEMPLAR_ATTRS" -> <<"HISTOGRAM_DP_EXEMPLARS", "id">>
    [] pt = "EXP_HISTOGRAM_DP_EXEMPLAR_ATTRS" -> <<"EXP_HISTOGRAM_DP_EXEMPLARS", "id">>
    [] OTHER -> <<"", "">>
\* width of the ids of a table / of the parent ids of a child table
IdWidth(pt) == IF pt \in MainTypes THEN 16 ELSE 32
PidWidth(pt) == LET p == ParentOf(pt)[1] IN IF p = "main" \/ p \in MainTypes THEN 16 ELSE 32

\* ---- decoding
RECURSIVE Run(_, _, _, _, _)
Run(w, col, k, prev, acc) ==
  IF k > Len(col) THEN acc
  ELSE IF col[k] = NULL THEN Run(w, col, k + 1, prev, Append(acc, NULL))
  ELSE LET v == Add(w, prev, col[k]) IN Run(w, col, k + 1, v, Append(acc, v))
Delta(w, col) == Run(w, col, 1, 0, <<>>)

RECURSIVE Grp(_, _, _, _, _, _)
Grp(w, rows, k, tok, prev, acc) ==
  IF k > Len(rows) THEN acc
  ELSE LET r == rows[k] IN
       IF r.pid = NULL THEN Grp(w, rows, k + 1, tok, prev, Append(acc, NULL))
       ELSE IF r.tok = "~" THEN LET v == Add(w, prev, r.pid) IN Grp(w, rows, k + 1, tok, v, Append(acc, v))
       ELSE IF r.tok # "" /\ r.tok = tok THEN LET v == Add(w, prev, r.pid) IN Grp(w, rows, k + 1, tok, v, Append(acc, v))
       ELSE Grp(w, rows, k + 1, r.tok, r.pid, Append(acc, r.pid))

Col(rows, f) == [k \in DOMAIN rows |-> rows[k][f]]
Ids(pt, rows) == Delta(IdWidth(pt), Col(rows, "id"))
Pids(pt, rows) ==
  IF pt \in DPTypes THEN Delta(PidWidth(pt), Col(rows, "pid"))
  ELSE Grp(PidWidth(pt), rows, 1, IF pt = "SPAN_EVENTS" THEN "n=" ELSE "", 0, <<>>)

\* ---- one batch
Tabs(e) == e.tabs
TabOf(e, pt) == LET S == {k \in DOMAIN Tabs(e) : Tabs(e)[k].pt = pt} IN IF S = {} THEN <<>> ELSE Tabs(e)[CHOOSE k \in S : TRUE].rows
MainPt(e) == CASE e.sig = "logs" -> "LOGS" [] e.sig = "metrics" -> "UNIVARIATE_METRICS" [] OTHER -> "SPANS"
NonNull(s) == {s[k] : k \in DOMAIN s} \ {NULL}
IdSet(e, ref) ==
  LET pt == IF ref[1] = "main" THEN MainPt(e) ELSE ref[1]
      rows == TabOf(e, pt)
  IN IF ref[2] = "id" THEN NonNull(Ids(pt, rows))
     ELSE NonNull(Delta(16, Col(rows, ref[2])))

StrictlyIncreasing(s) ==
  LET idx == {k \in DOMAIN s : s[k] # NULL} IN \A a, b \in idx : a < b => s[a] < s[b]

\* attribute sets per decoded parent id of an attribute table (normalised like the input side)
NormAttrsSet(S) == {<<q[1], NormVal(q[2], FALSE)>> : q \in {r \in S : r[1] # EmptyKey /\ r[2][1] # "u"}}
WireAttrSets(pt, rows) ==
  LET p == Pids(pt, rows)
  IN [x \in NonNull(p) |-> NormAttrsSet({rows[j].kv : j \in {k \in DOMAIN rows : p[k] = x}})]
BagOfFn(f) == LET vals == {f[x] : x \in DOMAIN f} \ {{}} IN [v \in vals |-> Cardinality({x \in DOMAIN f : f[x] = v})]
SetOfFn(f) == {f[x] : x \in DOMAIN f} \ {{}}
BagOfSeqNonEmpty(s) == LET vals == Range(s) \ {{}} IN [v \in vals |-> Cardinality({k \in DOMAIN s : s[k] = v})]
CountBag(p) == LET ids == NonNull(p) IN BagOfFn([x \in ids |-> {<<"n", Cardinality({k \in DOMAIN p : p[k] = x})>>}])

Kid(n, name) == LET S == {k \in DOMAIN n.k : n.k[k][1] = name} IN IF S = {} THEN <<>> ELSE n.k[CHOOSE k \in S : TRUE][2]
Flat(ss) == LET RECURSIVE F(_, _) F(k, acc) == IF k > Len(ss) THEN acc ELSE F(k + 1, acc \o ss[k]) IN F(1, <<>>)
Items(e) == e.in
Children(e, name) == Flat([k \in DOMAIN Items(e) |-> Kid(Items(e)[k], name)])
AttrsOfNodes(ns) == [k \in DOMAIN ns |-> NormAttrs(ns[k].a)]
CountsOfNodes(ns, name) == BagOfSeqNonEmpty([k \in DOMAIN ns |-> IF Len(Kid(ns[k], name)) = 0 THEN {} ELSE {<<"n", Len(Kid(ns[k], name))>>}])

Has(e, pt) == \E k \in DOMAIN Tabs(e) : Tabs(e)[k].pt = pt
D(e, clause, pt) == {<<e.tr, e.k, clause, pt>>}
If(c, s) == IF c THEN s ELSE {}

TableChecks(e, t) ==
  LET pt == t.pt
      rows == t.rows
      ref == ParentOf(pt)
  IN If(\E k \in DOMAIN rows : rows[k].id # NULL, If(~StrictlyIncreasing(Ids(pt, rows)), D(e, "IdsIncrease", pt)))
     \cup If(pt \in MainTypes, If(\E k \in DOMAIN rows : rows[k].rid = NULL \/ rows[k].sid = NULL, D(e, "MainRowWithoutResourceOrScopeId", pt)))
     \cup If(ref[1] # "", If(~(NonNull(Pids(pt, rows)) \subseteq IdSet(e, ref)), D(e, "Referential", pt))
                         \cup If(\E k \in DOMAIN rows : rows[k].pid = NULL, D(e, "NullParentId", pt)))

AttrBag(e, pt) == IF Has(e, pt) THEN BagOfFn(WireAttrSets(pt, TabOf(e, pt))) ELSE BagOfFn([x \in {} |-> {}])
AttrSet(e, pt) == IF Has(e, pt) THEN SetOfFn(WireAttrSets(pt, TabOf(e, pt))) ELSE {}
PidCountBag(e, pts) ==
  \* children per parent over several tables that share one parent id space
  LET all == Flat([k \in DOMAIN pts |-> IF Has(e, pts[k]) THEN Pids(pts[k], TabOf(e, pts[k])) ELSE <<>>]) IN CountBag(all)
BagSum(bs) ==
  LET keys == UNION {DOMAIN bs[k] : k \in DOMAIN bs}
      RECURSIVE Sum(_, _) Sum(v, k) == IF k > Len(bs) THEN 0 ELSE (IF v \in DOMAIN bs[k] THEN bs[k][v] ELSE 0) + Sum(v, k + 1)
  IN [v \in keys |-> Sum(v, 1)]

Conserved(e) ==
  LET items == Items(e)
      res == Children(e, "res")
      sc == Children(e, "scope")
  IN If(AttrSet(e, "RESOURCE_ATTRS") # Range(AttrsOfNodes(res)) \ {{}}, D(e, "Conserved", "RESOURCE_ATTRS"))
     \cup If(AttrSet(e, "SCOPE_ATTRS") # Range(AttrsOfNodes(sc)) \ {{}}, D(e, "Conserved", "SCOPE_ATTRS"))
     \cup (CASE e.sig = "traces" ->
             LET evs == Children(e, "events")  lks == Children(e, "links") IN
               If(AttrBag(e, "SPAN_ATTRS") # BagOfSeqNonEmpty(AttrsOfNodes(items)), D(e, "Conserved", "SPAN_ATTRS"))
               \cup If(AttrBag(e, "SPAN_EVENT_ATTRS") # BagOfSeqNonEmpty(AttrsOfNodes(evs)), D(e, "Conserved", "SPAN_EVENT_ATTRS"))
               \cup If(AttrBag(e, "SPAN_LINK_ATTRS") # BagOfSeqNonEmpty(AttrsOfNodes(lks)), D(e, "Conserved", "SPAN_LINK_ATTRS"))
               \cup If(PidCountBag(e, <<"SPAN_EVENTS">>) # CountsOfNodes(items, "events"), D(e, "Conserved", "SPAN_EVENTS"))
               \cup If(PidCountBag(e, <<"SPAN_LINKS">>) # CountsOfNodes(items, "links"), D(e, "Conserved", "SPAN_LINKS"))
           [] e.sig = "logs" ->
               If(AttrBag(e, "LOG_ATTRS") # BagOfSeqNonEmpty(AttrsOfNodes(items)), D(e, "Conserved", "LOG_ATTRS"))
           [] OTHER ->
             LET dps == Children(e, "points")
                 exs == Flat([k \in DOMAIN dps |-> Kid(dps[k], "exemplars")])
                 dpAttrs == BagSum(<<AttrBag(e, "NUMBER_DP_ATTRS"), AttrBag(e, "SUMMARY_DP_ATTRS"), AttrBag(e, "HISTOGRAM_DP_ATTRS"), AttrBag(e, "EXP_HISTOGRAM_DP_ATTRS")>>)
                 exAttrs == BagSum(<<AttrBag(e, "NUMBER_DP_EXEMPLAR_ATTRS"), AttrBag(e, "HISTOGRAM_DP_EXEMPLAR_ATTRS"), AttrBag(e, "EXP_HISTOGRAM_DP_EXEMPLAR_ATTRS")>>)
             IN If(PidCountBag(e, <<"NUMBER_DATA_POINTS", "SUMMARY_DATA_POINTS", "HISTOGRAM_DATA_POINTS", "EXP_HISTOGRAM_DATA_POINTS">>) # CountsOfNodes(items, "points"),
                   D(e, "Conserved", "DATA_POINTS"))
                \cup If(dpAttrs # BagOfSeqNonEmpty(AttrsOfNodes(dps)), D(e, "Conserved", "DP_ATTRS"))
                \cup If(exAttrs # BagOfSeqNonEmpty(AttrsOfNodes(exs)), D(e, "Conserved", "DP_EXEMPLAR_ATTRS"))
                \cup If(BagSum(<<PidCountBag(e, <<"NUMBER_DP_EXEMPLARS">>), PidCountBag(e, <<"HISTOGRAM_DP_EXEMPLARS">>), PidCountBag(e, <<"EXP_HISTOGRAM_DP_EXEMPLARS">>)>>)
                        # CountsOfNodes(dps, "exemplars"), D(e, "Conserved", "DP_EXEMPLARS")))

\* ownership at the wire level: every main row with the attribute sets its id, its resource id and its scope id select,
\* as a bag, against every input item with its own, its resource's and its scope's attribute set
Lookup(f, x) == IF x # NULL /\ x \in DOMAIN f THEN f[x] ELSE {}
Owned(e) ==
  LET mpt == MainPt(e)
      rows == TabOf(e, mpt)
      ids == Ids(mpt, rows)
      rids == Delta(16, Col(rows, "rid"))
      sids == Delta(16, Col(rows, "sid"))
      own == CASE e.sig = "traces" -> (IF Has(e, "SPAN_ATTRS") THEN WireAttrSets("SPAN_ATTRS", TabOf(e, "SPAN_ATTRS")) ELSE [x \in {} |-> {}])
               [] e.sig = "logs" -> (IF Has(e, "LOG_ATTRS") THEN WireAttrSets("LOG_ATTRS", TabOf(e, "LOG_ATTRS")) ELSE [x \in {} |-> {}])
               [] OTHER -> [x \in {} |-> {}]
      ra == IF Has(e, "RESOURCE_ATTRS") THEN WireAttrSets("RESOURCE_ATTRS", TabOf(e, "RESOURCE_ATTRS")) ELSE [x \in {} |-> {}]
      sa == IF Has(e, "SCOPE_ATTRS") THEN WireAttrSets("SCOPE_ATTRS", TabOf(e, "SCOPE_ATTRS")) ELSE [x \in {} |-> {}]
      wire == BagOf([k \in DOMAIN rows |-> <<Lookup(own, ids[k]), Lookup(ra, rids[k]), Lookup(sa, sids[k])>>])
      items == Items(e)
      inp == BagOf([k \in DOMAIN items |->
                     <<IF e.sig = "metrics" THEN {} ELSE NormAttrs(items[k].a),
                       NormAttrs(Kid(items[k], "res")[1].a), NormAttrs(Kid(items[k], "scope")[1].a)>>])
  IN If(Has(e, mpt) /\ wire # inp, D(e, "Owned", mpt))

\* traces: every span row with its own attribute set and the bags of its events' names and its links' trace ids, against
\* every input span with the same three things - events and links stay with the span they were given to
TokBagOf(rows, pids, x) ==
  LET S == IF x = NULL THEN {} ELSE {j \in DOMAIN rows : pids[j] = x}
  IN [t \in {rows[j].tok : j \in S} |-> Cardinality({j \in S : rows[j].tok = t})]
NodeTokBag(ns, pre, fld) ==
  [t \in {pre \o ns[j].f[fld][2] : j \in DOMAIN ns} |-> Cardinality({j \in DOMAIN ns : pre \o ns[j].f[fld][2] = t})]
OwnedChildren(e) ==
  IF e.sig # "traces" \/ ~Has(e, "SPANS") THEN {}
  ELSE
  LET rows == TabOf(e, "SPANS")
      ids == Ids("SPANS", rows)
      own == IF Has(e, "SPAN_ATTRS") THEN WireAttrSets("SPAN_ATTRS", TabOf(e, "SPAN_ATTRS")) ELSE [x \in {} |-> {}]
      evr == TabOf(e, "SPAN_EVENTS")
      evp == IF Has(e, "SPAN_EVENTS") THEN Pids("SPAN_EVENTS", evr) ELSE <<>>
      lkr == TabOf(e, "SPAN_LINKS")
      lkp == IF Has(e, "SPAN_LINKS") THEN Pids("SPAN_LINKS", lkr) ELSE <<>>
      wire == BagOf([k \in DOMAIN rows |-> <<Lookup(own, ids[k]), TokBagOf(evr, evp, ids[k]), TokBagOf(lkr, lkp, ids[k])>>])
      items == Items(e)
      inp == BagOf([k \in DOMAIN items |->
                     <<NormAttrs(items[k].a), NodeTokBag(Kid(items[k], "events"), "n", 1), NodeTokBag(Kid(items[k], "links"), "t", 1)>>])
  IN If(wire # inp, D(e, "OwnedChildren", "SPANS"))

Judge(e) ==
  (UNION {TableChecks(e, Tabs(e)[k]) : k \in DOMAIN Tabs(e)})
  \cup If(~Has(e, MainPt(e)), D(e, "NoMainRecord", MainPt(e)))
  \cup Conserved(e)
  \cup Owned(e)
  \cup OwnedChildren(e)

Init == i = 1 /\ drift = {} /\ nrows = 0
Next ==
  /\ i <= Len(Trace)
  /\ i' = i + 1
  /\ drift' = drift \cup Judge(Trace[i])
  /\ nrows' = nrows + Len(Flat([k \in DOMAIN Trace[i].tabs |-> Trace[i].tabs[k].rows]))
Spec == Init /\ [][Next]_vars
Report == i <= Len(Trace) \/ PrintT(<<"OTAPWIRE-RESULT", Len(Trace), nrows, ToJson(drift)>>)
=============================================================================
