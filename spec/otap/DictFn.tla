------------------------------- MODULE DictFn -------------------------------
(***************************************************************************)
(* DictionaryField.updateIndexType (pkg/otel/common/schema/transform/      *)
(* dictionary.go) as a pure function, shared by Dictionary.tla (exhaustive *)
(* model checking) and DictObs.tla (validation of the observer events and  *)
(* wire dictionaries recorded from the real producer).                     *)
(*   caps   max cardinality per index level (increasing)                   *)
(*   lv     current level, 0 = plain column                                *)
(*   card   dictionary cardinality reported by the builder                 *)
(*   cum, n cumulative total before this record, values in this record     *)
(*   rp     resetPending                                                   *)
(* result <<new level, new cumulative total, new resetPending, kind>>,     *)
(* kind in "plain", "ok", "upgrade", "reset", "overflow"                   *)
(***************************************************************************)
EXTENDS Integers, Sequences, FiniteSets, TLC

UpdateFn(caps, thrNum, thrDen, lv, card, cum, n, rp, mutNoResetGuard, mutKeepWidening) ==
  LET L == Len(caps)
      total == cum + n                               \* after AddTotal
      RECURSIVE Climb(_)
      Climb(i) == IF i <= L /\ card > caps[i] THEN Climb(i + 1) ELSE i
      idx == Climb(lv)
  IN IF lv = 0 THEN <<0, cum, FALSE, "plain">>        \* not a dictionary column: no counters
     ELSE IF idx > L
     THEN IF mutKeepWidening THEN <<L, total, FALSE, "ok">>
          ELSE IF (thrNum < 0 \/ card * thrDen < thrNum * total) /\ (mutNoResetGuard \/ ~rp)    \* thrNum < 0: infinite threshold
               THEN <<L, 0, TRUE, "reset">>
               ELSE <<0, total, rp, "overflow">>
     ELSE IF idx # lv THEN <<idx, total, FALSE, "upgrade">>
     ELSE <<lv, total, FALSE, "ok">>
=============================================================================
