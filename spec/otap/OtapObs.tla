------------------------------ MODULE OtapObs ------------------------------
(***************************************************************************)
(* Black-box specification of an OTAP producer/consumer stream: properties *)
(* C01-C04, C07, C08, C12-C15 over the externally observable history of a  *)
(* stream (inputs, encode outcomes, the wire as an independent Arrow       *)
(* reader sees it, decode outcomes and outputs, allocator balance).        *)
(* Deterministic monitor run by TLC over traces recorded from the real     *)
(* producer and consumer by harness/otap; violations accumulate in viol.   *)
(***************************************************************************)
EXTENDS RoundTrip, TLC, Json

CONSTANT TraceFile
Trace == ndJsonDeserialize(TraceFile)

VARIABLES
  i,         \* next event
  hdr,       \* Begin record of the current stream
  nextBid,   \* batch id the next emitted batch must carry
  sidType, sidSchema,   \* schema id -> payload type / schema fingerprint
  live,      \* payload type -> schema id in use
  retired,   \* schema ids whose payload type has moved on
  opened,    \* schema ids whose IPC stream has started
  lastIn,    \* input items of the last encoded batch
  lastEnc,   \* outcome of the last Encode
  ladder,    \* Ladder records of the current batch
  viol

vars == <<i, hdr, nextBid, sidType, sidSchema, live, retired, opened, lastIn, lastEnc, ladder, viol>>
Empty == [x \in {} |-> 0]

Init ==
  /\ i = 1
  /\ hdr = [a |-> -1, b |-> 0, flag |-> 0, l |-> <<>>, sig |-> "", tr |-> 0]
  /\ nextBid = 0
  /\ sidType = Empty /\ sidSchema = Empty /\ live = Empty
  /\ retired = {} /\ opened = {}
  /\ lastIn = <<>> /\ lastEnc = "" /\ ladder = <<>>
  /\ viol = {}

V(prop, clause, ev) == {<<ev.tr, prop, clause, ev.seq>>}
If(c, s) == IF c THEN s ELSE {}
Vs(props, clause, ev) == UNION {V(p, clause, ev) : p \in props}
RTProps == Range(hdr.l)                       \* properties the round-trip clauses of this stream serve
DictLimit == hdr.a                            \* max entries of a transmitted dictionary, -1 = unlimited

MainOf(sig) == CASE sig = "logs" -> "LOGS" [] sig = "metrics" -> "UNIVARIATE_METRICS" [] OTHER -> "SPANS"
Pow2(b) == CASE b = 8 -> 256 [] b = 16 -> 65536 [] OTHER -> 2147483647

OnBegin(ev) ==
  /\ hdr' = ev /\ nextBid' = 0
  /\ sidType' = Empty /\ sidSchema' = Empty /\ live' = Empty
  /\ retired' = {} /\ opened' = {}
  /\ lastIn' = <<>> /\ lastEnc' = "" /\ ladder' = <<>>
  /\ UNCHANGED viol

\* ---- framing of one emitted batch (C12) and dictionary sizes (C13)
Framing(ev) ==
  LET pl == ev.pl
      n == Len(pl)
      \* state after the payloads before position j
      RECURSIVE Walk(_, _, _, _, _, _, _)
      Walk(j, sT, sS, lv, rt, op, acc) ==
        IF j > n THEN <<sT, sS, lv, rt, op, acc>>
        ELSE
          LET p == pl[j]
              known == p.sid \in DOMAIN sT
              moved == p.ptype \in DOMAIN lv /\ lv[p.ptype] # p.sid
              first == p.sid \notin op
              msgs == p.msgs
              m == Len(msgs)
              shape == /\ m >= 1 /\ msgs[m] = "batch"
                       /\ (first => m >= 2 /\ msgs[1] = "schema")
                       /\ \A x \in (IF first THEN 2 ELSE 1)..(m - 1) : msgs[x] = "dict"
              v == If(known /\ sT[p.sid] # p.ptype, V("C12", "SchemaIdChangesPayloadType", ev))
                   \cup If(known /\ p.indep = "ok" /\ sS[p.sid] # p.schema, V("C12", "SchemaIdChangesSchema", ev))
                   \cup If(p.sid \in rt, V("C12", "RetiredSchemaIdReused", ev))
                   \cup If(~shape, V("C12", "NotAnIpcContinuation", ev))
                   \cup If(p.indep # "ok", V("C12", "IndependentReaderFails", ev))
                   \cup If(j > 1 /\ p.indep = "ok" /\ p.rows <= 0, V("C12", "EmptyRelatedPayload", ev))
                   \cup If(\E d \in Range(p.dicts) :
                              \/ (DictLimit >= 0 /\ d[3] > DictLimit)
                              \/ d[3] > Pow2(d[2]),
                           V("C13", "DictionaryOverLimit", ev))
          IN Walk(j + 1,
                  (p.sid :> p.ptype) @@ sT,
                  IF p.indep = "ok" THEN (p.sid :> p.schema) @@ sS ELSE sS,
                  (p.ptype :> p.sid) @@ lv,
                  IF moved THEN rt \cup {lv[p.ptype]} ELSE rt,
                  op \cup {p.sid},
                  acc \cup v)
      r == Walk(1, sidType, sidSchema, live, retired, opened, {})
      types == [j \in 1..n |-> pl[j].ptype]
      v0 == If(ev.bid # nextBid, V("C12", "BatchIdNotConsecutive", ev))
            \cup If(n = 0 \/ (n > 0 /\ pl[1].ptype # MainOf(ev.sig)), V("C12", "MainRecordNotFirst", ev))
            \cup If(\E a, b \in 1..n : a # b /\ types[a] = types[b], V("C12", "PayloadTypeTwice", ev))
  IN <<r, v0>>

OnEncode(ev) ==
  LET guarded == ev.x = "rand" /\ hdr.b # 2     \* hdr.b = 2 marks unguarded (out-of-domain) generators
      v == If(ev.oc = "panic", V("C08", "ProducerPanic", ev))
           \* an in-domain batch that is not encoded at all is not round-tripped either (C01-C04: "every batch decoded")
           \cup If(ev.oc = "panic" /\ hdr.b = 0, Vs(RTProps, "ValidInputNotEncoded", ev))
           \cup If(ev.flag = 0, V("C15", "InputModified", ev))
           \cup If(ev.oc = "error" /\ hdr.b = 0, Vs(RTProps, "ValidInputRefused", ev))    \* mode 0: every input is inside the domain
  IN /\ lastIn' = ev.in
     /\ lastEnc' = ev.oc
     /\ ladder' = <<>>
     /\ IF ev.oc = "ok" /\ hdr.flag = 0          \* hdr.flag = 1: the wire of this stream was not walked
        THEN LET fr == Framing(ev) IN
             /\ nextBid' = nextBid + 1
             /\ sidType' = fr[1][1] /\ sidSchema' = fr[1][2] /\ live' = fr[1][3]
             /\ retired' = fr[1][4] /\ opened' = fr[1][5]
             /\ viol' = viol \cup v \cup fr[1][6] \cup fr[2]
        ELSE IF ev.oc = "ok"
        THEN \* the wire of this stream is not walked (big batches; histories with a fault inside the IPC writer, after which
             \* the sub-streams are outside the domain): what the batch itself shows - its id, the main record first, one
             \* payload per type - is judged all the same
             /\ nextBid' = nextBid + 1
             /\ viol' = viol \cup v \cup Framing(ev)[2]
             /\ UNCHANGED <<sidType, sidSchema, live, retired, opened>>
        ELSE /\ UNCHANGED <<nextBid, sidType, sidSchema, live, retired, opened>>
             /\ viol' = viol \cup v
     /\ UNCHANGED hdr

\* ev.bid = 1: this consumer has refused an earlier batch of the stream (its readers are stuck on that
\* refusal); it must still refuse recognisably and never panic, but is no longer compared with the others
\* ev.bid = 2: moreover this batch continues a sub-stream of a batch the consumer refused, i.e. an IPC stream with
\* missing messages (outside the domain, as the gapped sub-streams of C07): a panic there is not judged
OnLadder(ev) ==
  /\ ladder' = IF ev.bid >= 1 /\ ev.oc = "ok" THEN ladder ELSE Append(ladder, ev)
  /\ viol' = viol
       \cup If(ev.oc = "panic" /\ ev.bid # 2, V("C14", "PanicUnderMemoryLimit", ev))
       \* ev.bid = 3: the first payload of this batch goes to a reader that refused an earlier batch for memory; its error
       \* is sticky, so the batch is refused again and the refusal is still recognisable (a reader that resumes has lost
       \* the dictionary it was reading when it refused)
       \cup If(ev.bid = 3 /\ ~(ev.oc = "error" /\ ev.flag = 1), V("C14", "RefusedReaderDoesNotKeepRefusing", ev))
       \* ev.bid = 1: the consumer refused earlier, but this batch reaches neither the refusing reader nor a reader with a
       \* hole (its sub-streams are new or intact): whatever it refuses now must again be recognisable
       \cup If(ev.bid = 1 /\ ev.oc = "error" /\ ev.flag = 0, V("C14", "LaterRefusalNotRecognisableAsMemoryLimit", ev))
       \cup If(ev.b > ev.a, V("C14", "ReportedInUseExceedsLimit", ev))
       \cup If(ev.bid = 0 /\ ev.oc # "ok" /\ \E j \in DOMAIN ladder : ladder[j].bid = 0 /\ ladder[j].oc = "ok" /\ ladder[j].a <= ev.a,
               V("C14", "RaisingLimitRefusesDecodableBatch", ev))
  /\ UNCHANGED <<hdr, nextBid, sidType, sidSchema, live, retired, opened, lastIn, lastEnc>>

OnDecode(ev) ==
  \* a batch decoded later than it was produced (lagged streams) carries its own input
  LET theIn == IF Len(ev.in) > 0 THEN ev.in ELSE lastIn
      faulted == Len(ev.l) > 0
      healthy == ev.flag = 1
      dumped == Len(theIn) > 0 \/ ev.b = 0
      tainted == ev.bid >= 1       \* the batch continues a sub-stream the consumer has a hole in (outside C07's domain)
      spliced == ev.bid = 2        \* the altered batch makes a reader read the IPC bytes of another sub-stream (outside the domain)
      SameAs(lo, ln) == ln = ev.n /\ (Len(ev.out) = ev.n /\ Len(lo) = ln => Equivalent(lo, ev.out))
      \* (C07 quantifies over a VALID prefix followed by one altered batch)
      \* judged: the first altered batch after a valid prefix, and unaltered batches whose sub-streams are intact
      judgedNow == ~spliced /\ ((faulted /\ healthy) \/ (~faulted /\ ~tainted))
      v == If(ev.oc = "panic" /\ judgedNow, V("C07", "ConsumerPanic", ev))
           \cup If(ev.oc = "panic" /\ ~faulted /\ healthy, Vs(RTProps, "ConsumerPanicOnValidBatch", ev))
           \cup If(ev.oc = "error" /\ ~faulted /\ healthy, Vs(RTProps, "ValidBatchRejected", ev) \cup V("C07", "WellFormedBatchRejected", ev))
           \cup If(ev.oc = "ok" /\ ~faulted /\ healthy /\ ev.n # ev.b, Vs(RTProps, "ItemCountDiffers", ev))
           \cup If(ev.oc = "ok" /\ ~faulted /\ healthy /\ ev.n = ev.b /\ Len(ev.out) = ev.n /\ Len(theIn) = ev.b
                     /\ ~Equivalent(theIn, ev.out),
                   Vs(RTProps, "NotEquivalent", ev))
           \cup If(ev.oc = "ok" /\ faulted /\ judgedNow /\ ev.a = 1 /\ ev.n < ev.b, V("C07", "SuccessWhileDiscardingMainRecord", ev))
           \cup If(ev.oc = "ok" /\ ~faulted /\ healthy /\
                   \E j \in DOMAIN ladder : ladder[j].oc = "error" /\ ladder[j].flag = 0 /\ ladder[j].bid = 0,
                   V("C14", "RefusalNotRecognisableAsMemoryLimit", ev))
           \cup If(ev.oc = "ok" /\ ~faulted /\ healthy /\
                   \E j \in DOMAIN ladder : ladder[j].oc = "ok" /\ ladder[j].bid = 0 /\ ~SameAs(ladder[j].out, ladder[j].n),
                   V("C14", "LimitChangesDecodedTelemetry", ev))
  IN /\ viol' = viol \cup v
     /\ UNCHANGED <<hdr, nextBid, sidType, sidSchema, live, retired, opened, lastIn, lastEnc, ladder>>

OnClose(ev) ==
  /\ viol' = viol \cup If(ev.a # 0, V("C15", "MemoryNotReturnedOnClose", ev))
                  \cup If(ev.err # "", V("C15", "CloseFailed", ev))
                  \* ev.n: emitted payloads whose bytes were no longer the emitted ones at the end of the stream
                  \cup If(ev.n > 0, V("C12", "EmittedPayloadChangedLater", ev))
  /\ UNCHANGED <<hdr, nextBid, sidType, sidSchema, live, retired, opened, lastIn, lastEnc, ladder>>

\* C16: what a stream decoded while other streams ran concurrently (ev.out) vs. what it decoded alone (ev.in)
OnConc(ev) ==
  /\ viol' = viol
       \cup If(ev.oc = "race", V("C16", "DataRace", ev))
       \cup If(ev.oc = "globals", V("C16", "SharedPackageStateModified", ev))
       \cup If(ev.k >= 0 /\ ev.oc # "race" /\ ev.flag = 0, V("C16", "OutcomeDiffersFromAlone", ev))
       \cup If(ev.k >= 0 /\ ev.flag = 1 /\ ev.n # ev.b, V("C16", "ItemCountDiffersFromAlone", ev))
       \cup If(ev.k >= 0 /\ ev.flag = 1 /\ ev.n = ev.b /\ ev.a = 0 /\ ~Equivalent(ev.in, ev.out),
               V("C16", "ConcurrentRunDiffersFromAlone", ev))
  /\ UNCHANGED <<hdr, nextBid, sidType, sidSchema, live, retired, opened, lastIn, lastEnc, ladder>>

Skip == UNCHANGED <<hdr, nextBid, sidType, sidSchema, live, retired, opened, lastIn, lastEnc, ladder, viol>>

Next ==
  /\ i <= Len(Trace)
  /\ i' = i + 1
  /\ LET ev == Trace[i] IN
       CASE ev.ev = "Begin" -> OnBegin(ev)
         [] ev.ev = "Encode" -> OnEncode(ev)
         [] ev.ev = "Ladder" -> OnLadder(ev)
         [] ev.ev = "Decode" -> OnDecode(ev)
         [] ev.ev = "Close" -> OnClose(ev)
         [] ev.ev = "Conc" -> OnConc(ev)
         [] OTHER -> Skip

Spec == Init /\ [][Next]_vars
Report == i <= Len(Trace) \/ PrintT(<<"OTAPOBS-RESULT", Len(Trace), ToJson(viol)>>)
=============================================================================
