---------------------------- MODULE StreamTrace ----------------------------
(***************************************************************************)
(* Trace validation of the real Producer / Consumer against Stream.tla.    *)
(*                                                                         *)
(* The harness records, per stream: every Produce (payloads as emitted:    *)
(* schema id, payload type, "starts with a schema message", plus the       *)
(* projection of Producer.streamProducers read through the verif-tagged    *)
(* accessor) and every Consume (the payload list actually handed to the    *)
(* consumer after the faults, the outcome, and the projection of           *)
(* Consumer.streamConsumers).  Every recorded step must be a step of       *)
(* Stream.tla that leads to the recorded projection; the loop iterations   *)
(* of Consume are not logged and are taken as silent steps.  Unlogged:     *)
(* nothing on the producer side; on the consumer side the reader's         *)
(* position, which the specification computes.                             *)
(*                                                                         *)
(* Acceptance: the high-water mark of consumed trace lines (register 1)    *)
(* reaches Len(Trace).  A line the specification cannot explain is DRIFT,  *)
(* reported by the orchestrator with the line; it is not a verdict.        *)
(***************************************************************************)
EXTENDS Stream, Json

CONSTANT TraceFile
Trace == ndJsonDeserialize(TraceFile)

VARIABLES l,       \* next trace line
          lost,    \* the consumer of this stream is no longer followed (a batch outside the domain was consumed)
          kh,      \* <<signal, payload type>> -> the schema keys that record builder has used, in order (without repetitions)
          opens    \* IPC readers the Consume in progress has tried to open (what `arrow_schema_resets` counts)
tvars == <<vars, l, lost, kh, opens>>

Ev == Trace[l]
IsEv(e) == l <= Len(Trace) /\ Trace[l].ev = e

TInit == Init /\ l = 1 /\ lost = FALSE /\ kh = <<>> /\ opens = 0

\* a new stream: fresh producer and consumer
TBegin ==
  /\ IsEv("Begin")
  /\ pstreams' = {} /\ nextId' = 0 /\ batchId' = 0 /\ wire' = <<>> /\ orig' = <<>> /\ bsig' = Ev.sig /\ phase' = "idle"
  /\ cstreams' = {} /\ pos' = 1 /\ got' = <<>> /\ res' = "none" /\ nfaults' = 0 /\ altered' = FALSE /\ gapped' = {}
  /\ judged' = TRUE /\ ann' = <<>> /\ retiredIds' = {}
  /\ l' = l + 1 /\ lost' = FALSE /\ kh' = <<>> /\ opens' = 0

\* the key of the stream producer that wrote payload i: the entry of the logged projection with its schema id
KeyOf(id) == LET hit == {k \in 1..Len(Ev.ps) : Ev.ps[k][2] = id} IN IF hit = {} THEN "?" ELSE Ev.ps[CHOOSE k \in hit : TRUE][1]

\* the previous batch was never handed to the consumer (the harness does not decode it): its sub-streams are gapped
Discard == IF phase = "flight" THEN Ids(orig) ELSE {}

StatSig(sg) == <<IF sg = "traces" THEN 1 ELSE 0, IF sg = "logs" THEN 1 ELSE 0, IF sg = "metrics" THEN 1 ELSE 0>>

TEncodeOk ==
  /\ IsEv("Encode") /\ Ev.oc = "ok" /\ phase \in {"idle", "flight"}
  /\ LET recs == [i \in 1..Len(Ev.pl) |-> <<Ev.pl[i][2], KeyOf(Ev.pl[i][1]), IF i = 1 THEN Ev.rows = 1 ELSE TRUE>>]
         st == EmitAll([streams |-> pstreams, next |-> nextId, out |-> <<>>, ann |-> ann, ret |-> retiredIds], Ev.sig, recs)
         g == gapped \cup Discard
     IN \* what the specification emits is what was emitted ...
        /\ Len(st.out) = Len(Ev.pl)
        /\ \A i \in 1..Len(Ev.pl) : /\ st.out[i].id = Ev.pl[i][1]
                                    /\ st.out[i].first = (Ev.pl[i][3] = 1)
                                    /\ Ev.pl[i][4] = 1                           \* no payload is empty
        \* ... and the stream producers it is left with are the recorded ones
        /\ {<<x.key, x.id, x.pt>> : x \in st.streams} = {<<Ev.ps[k][1], Ev.ps[k][2], Ev.ps[k][3]>> : k \in 1..Len(Ev.ps)}
        /\ Ev.n = batchId                                                        \* batch ids count up from zero
        \* the producer's own statistics (when read: since the previous Encode event) are functions of this step:
        \* stream producers created = ids taken, closed = stream producers retired, one batch of this signal
        /\ Len(Ev.st) = 5 => /\ Ev.st[1] = st.next - nextId
                              /\ Ev.st[2] = Cardinality({x.id : x \in pstreams} \ {x.id : x \in st.streams})
                              /\ <<Ev.st[3], Ev.st[4], Ev.st[5]>> = StatSig(Ev.sig)
        /\ pstreams' = st.streams /\ nextId' = st.next /\ ann' = st.ann /\ retiredIds' = st.ret
        /\ wire' = st.out /\ orig' = st.out /\ gapped' = g
        /\ judged' = (\A x \in cstreams : x.id \in Ids(st.out) \cap g => x.st = "unopened")
        \* schema evolution is additive: the record builder of a signal never returns to a schema key it has left
        \* (this is what MC_Stream assumes when it lets the levels only grow)
        /\ LET builders == {<<Ev.sig, recs[i][1]>> : i \in 1..Len(recs)}
               KeyNow(b) == recs[CHOOSE i \in 1..Len(recs) : recs[i][1] = b[2]][2]
               Old(b) == IF b \in DOMAIN kh THEN kh[b] ELSE <<>>
               Step(b) == IF Old(b) # <<>> /\ Old(b)[Len(Old(b))] = KeyNow(b) THEN Old(b) ELSE Append(Old(b), KeyNow(b))
           IN /\ \A b \in builders : Old(b) # <<>> /\ Old(b)[Len(Old(b))] # KeyNow(b) => \A j \in 1..Len(Old(b)) : Old(b)[j] # KeyNow(b)
              /\ kh' = [b \in DOMAIN kh \cup builders |-> IF b \in builders THEN Step(b) ELSE kh[b]]
  /\ batchId' = batchId + 1 /\ bsig' = Ev.sig /\ phase' = "flight" /\ pos' = 1 /\ got' = <<>> /\ res' = "none"
  /\ UNCHANGED <<cstreams, nfaults, altered, lost, opens>>
  /\ l' = l + 1

\* a refused encode leaves the stream producers as they were (the record builders are not modelled here)
TEncodeErr ==
  /\ IsEv("Encode") /\ Ev.oc # "ok" /\ phase \in {"idle", "flight"}
  /\ Ev.oc = "error" => {<<x.key, x.id, x.pt>> : x \in pstreams} = {<<Ev.ps[k][1], Ev.ps[k][2], Ev.ps[k][3]>> : k \in 1..Len(Ev.ps)}
  /\ Ev.oc = "error" /\ Len(Ev.st) = 5 => Ev.st = <<0, 0, 0, 0, 0>>      \* ... and counts nothing
  /\ gapped' = gapped \cup Discard /\ phase' = "idle" /\ res' = "none"
  /\ UNCHANGED <<pstreams, nextId, batchId, wire, orig, bsig, cstreams, pos, got, nfaults, altered, judged, ann, retiredIds, lost, kh, opens>>
  /\ l' = l + 1

\* the batch as handed to the consumer: the logged payload list, each entry the producer's payload `orig`
\* (or an emptied / foreign one) under the logged schema id and label.  The faults are applied in one step.
Handed == [i \in 1..Len(Ev.fp) |->
             LET f == Ev.fp[i]
                 o == IF f[3] >= 0 THEN orig[f[3] + 1] ELSE orig[1]
             IN [o EXCEPT !.id = f[1], !.pt = f[2], !.empty = (f[4] = 1 \/ f[3] < 0)]]

TDeliver ==
  /\ IsEv("Decode") /\ phase = "flight" /\ ~lost
  /\ wire' = Handed /\ altered' = (altered \/ Handed # orig) /\ phase' = "consume"
  /\ judged' = (judged /\ ~(altered /\ Handed # orig))
  /\ UNCHANGED <<pstreams, nextId, batchId, orig, bsig, cstreams, pos, got, res, nfaults, gapped, ann, retiredIds, l, lost, kh>>
  /\ opens' = 0

\* the iteration about to run finds no opened reader for its payload: it calls ipc.NewReader (and counts a schema reset)
OpensNow == LET hit == {x \in cstreams : x.id = wire[pos].id} IN hit = {} \/ \E x \in hit : x.st = "unopened"

TSilent == /\ ~lost
           /\ \/ ConsumeStep /\ opens' = opens + (IF OpensNow THEN 1 ELSE 0)
              \/ Finish /\ opens' = opens
           /\ UNCHANGED <<l, lost, kh>>

\* Ev.n: the number of telemetry items the consumer returned (0 for a main record without rows)
Matches == IF Ev.oc = "ok"
           THEN \/ res = "empty" /\ Ev.n = 0
                \/ res = "ok" /\ (orig[1].rows => Ev.n > 0)
           ELSE res = Ev.oc

\* the projection of the reader state: "done" readers look open from outside
Proj(x) == <<x.id, x.pt, IF x.st = "done" THEN "open" ELSE x.st>>

TResult ==
  /\ IsEv("Decode") /\ phase = "idle" /\ res # "none" /\ ~lost
  /\ IF judged
     THEN /\ Matches
          /\ Ev.oc # "panic" => {Proj(x) : x \in cstreams} = {<<Ev.cs[k][1], Ev.cs[k][2], Ev.cs[k][3]>> : k \in 1..Len(Ev.cs)}
          \* the consumer's own counters (when recorded): `arrow_batch_records` counts the records Consume had read when it
          \* returned, `arrow_schema_resets` the readers it tried to open
          \* (a record batch read out of sequence may also be refused by the reader itself, which the model leaves to
          \* the end of the call: then fewer records were counted)
          /\ Ev.oc # "panic" /\ Len(Ev.st) = 2 =>
                /\ IF \A i \in 1..Len(got) : got[i].good THEN Ev.st[1] = Len(got) ELSE Ev.st[1] <= Len(got)
                /\ IF \A i \in 1..Len(got) : got[i].good THEN Ev.st[2] = opens ELSE Ev.st[2] <= opens
          /\ lost' = (Ev.oc = "panic")
     ELSE lost' = TRUE
  /\ res' = "none" /\ l' = l + 1
  /\ UNCHANGED <<pstreams, nextId, batchId, wire, orig, bsig, phase, cstreams, pos, got, nfaults, altered, gapped, judged, ann, retiredIds, kh, opens>>

\* once lost, the consumer's events are only counted
TSkip ==
  /\ IsEv("Decode") /\ lost
  /\ phase' = "idle" /\ res' = "none" /\ l' = l + 1
  /\ UNCHANGED <<pstreams, nextId, batchId, wire, orig, bsig, cstreams, pos, got, nfaults, altered, gapped, judged, ann, retiredIds, lost, kh, opens>>

TNext == TBegin \/ TEncodeOk \/ TEncodeErr \/ TDeliver \/ TSilent \/ TResult \/ TSkip
TSpec == TInit /\ [][TNext]_tvars

\* the producer-side properties of Stream.tla are invariants of every recorded execution too
TraceInv == IdDenotesOne /\ NoReuse /\ SchemaFirst /\ OncePerType /\ LiveBound

HW == TLCSet(1, IF TLCGet(1) < l THEN l ELSE TLCGet(1))
ASSUME TLCSet(1, 0)
Report == PrintT(<<"STREAMTRACE-HW", TLCGet(1), Len(Trace)>>)
=============================================================================
