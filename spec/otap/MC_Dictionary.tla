--------------------------- MODULE MC_Dictionary ---------------------------
EXTENDS Dictionary
MCCaps1 == <<2>>
MCCaps2 == <<2, 4>>
MCCaps3 == <<2, 4, 8>>
ThrInf == 0 - 1            \* infinite reset threshold (cfg files cannot hold negative numbers)
Thr3 == 3
Thr1 == 1
Thr0 == 0
=============================================================================
