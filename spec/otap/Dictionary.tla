----------------------------- MODULE Dictionary -----------------------------
(***************************************************************************)
(* White-box specification of the adaptive dictionary encoding of the      *)
(* columns of one Arrow record (pkg/otel/common/schema/transform/          *)
(* dictionary.go, builder/record.go NewRecord / UpdateSchema, and the      *)
(* retry loop of arrow_record.recordBuilder).                              *)
(*                                                                         *)
(* Per dictionary column: the index level (position in Caps, 0 = plain     *)
(* column), the number of entries in the current Arrow builder's memo      *)
(* table, the cumulative totals used by the reset heuristic, and the       *)
(* resetPending flag.  All columns of a record share one Arrow builder: a  *)
(* schema update requested by any column rebuilds the record from a fresh  *)
(* builder (dictionaries are not migrated), reverts the totals and         *)
(* re-appends the same batch.                                              *)
(***************************************************************************)
EXTENDS DictFn

CONSTANTS
  Cols,        \* dictionary columns of the record
  Caps,        \* max cardinality per index level, increasing, e.g. <<255, 65535>> (model checking: <<2, 4>>)
  ThrNum, ThrDen,   \* reset threshold as a rational ThrNum/ThrDen (ThrDen > 0); "infinite" = huge ThrNum
  MaxN,        \* bound: values per column per batch
  MaxBatches,  \* bound: batches
  MaxRetry,    \* consecutive schema updates tolerated by recordBuilder (5 in the code)
  MutNoResetGuard,   \* mutant: a reset may follow a reset without an intervening record (the pre-fix code)
  MutKeepWidening    \* mutant: never overflow nor reset, stay at the last level

VARIABLES
  lvl,       \* [Cols -> 0..Len(Caps)]   0 = not dictionary encoded
  memo,      \* [Cols -> Nat] entries in the builder's dictionary
  cum, prevCum,      \* cumulativeTotal / prevCumulativeTotal
  resetPending,      \* [Cols -> BOOLEAN]
  pc,        \* "idle", "build", "rebuild", "panic"
  n, d,      \* current batch: values per column, distinct values per column
  fresh,     \* the current builder was created for this batch (all of its distinct values are new)
  ovl,       \* distinct values of the batch already in the memo when the batch was first appended
  retries, batches,
  sent       \* [Cols -> size of the dictionary last transmitted (0 if none)], history for the property

vars == <<lvl, memo, cum, prevCum, resetPending, pc, n, d, fresh, ovl, retries, batches, sent>>

L == Len(Caps)
Last == Caps[L]

Init ==
  /\ lvl = [c \in Cols |-> 1]
  /\ memo = [c \in Cols |-> 0]
  /\ cum = [c \in Cols |-> 0] /\ prevCum = [c \in Cols |-> 0]
  /\ resetPending = [c \in Cols |-> FALSE]
  /\ pc = "idle"
  /\ n = [c \in Cols |-> 0] /\ d = [c \in Cols |-> 0] /\ ovl = [c \in Cols |-> 0]
  /\ fresh = FALSE
  /\ retries = 0 /\ batches = 0
  /\ sent = [c \in Cols |-> 0]

\* a batch arrives: per column n values of which d are distinct, ovl of them already known
NewBatch ==
  /\ pc = "idle" /\ batches < MaxBatches
  /\ \E nn \in [Cols -> 1..MaxN] : \E dd \in [Cols -> 1..MaxN] : \E oo \in [Cols -> 0..MaxN] :
       /\ \A c \in Cols : dd[c] <= nn[c] /\ oo[c] <= dd[c] /\ oo[c] <= memo[c]
       /\ n' = nn /\ d' = dd /\ ovl' = oo
  /\ pc' = "build" /\ retries' = 0 /\ fresh' = FALSE /\ batches' = batches + 1
  /\ UNCHANGED <<lvl, memo, cum, prevCum, resetPending, sent>>

\* cardinality the builder reports for column c once the batch is appended
CardAfter(c) == IF fresh THEN d[c] ELSE memo[c] + (d[c] - ovl[c])

\* updateIndexType for one column (DictFn.tla): <<new lvl, new cum, new resetPending, kind>>
Update(c) == UpdateFn(Caps, ThrNum, ThrDen, lvl[c], CardAfter(c), cum[c], n[c], resetPending[c], MutNoResetGuard, MutKeepWidening)

\* RecordBuilderExt.NewRecord: build the record, let every dictionary column
\* look at its cardinality; either the record is emitted or a schema update
\* is pending
Build ==
  /\ pc = "build"
  /\ LET u == [c \in Cols |-> Update(c)]
         dirty == \E c \in Cols : u[c][4] \in {"upgrade", "reset", "overflow"}
     IN /\ lvl' = [c \in Cols |-> u[c][1]]
        /\ prevCum' = cum                               \* AddTotal
        /\ cum' = [c \in Cols |-> u[c][2]]
        /\ resetPending' = [c \in Cols |-> u[c][3]]
        /\ IF dirty
           THEN /\ pc' = "rebuild"
                /\ UNCHANGED <<memo, sent>>
           ELSE /\ pc' = "idle"
                /\ memo' = [c \in Cols |-> IF lvl[c] = 0 THEN 0 ELSE CardAfter(c)]
                /\ sent' = [c \in Cols |-> IF lvl[c] = 0 THEN 0 ELSE CardAfter(c)]
  /\ UNCHANGED <<n, d, fresh, ovl, retries, batches>>

\* UpdateSchema + the retry of recordBuilder: totals reverted, fresh builder, same batch again
Rebuild ==
  /\ pc = "rebuild"
  /\ cum' = prevCum                                     \* RevertCounters (also undoes the zeroing of a reset)
  /\ memo' = [c \in Cols |-> 0]
  /\ fresh' = TRUE
  /\ retries' = retries + 1
  /\ pc' = IF retries + 1 > MaxRetry THEN "panic" ELSE "build"
  /\ UNCHANGED <<lvl, prevCum, resetPending, n, d, ovl, batches, sent>>

Next == NewBatch \/ Build \/ Rebuild
Spec == Init /\ [][Next]_vars

---------------------------------------------------------------------------
\* C13: a transmitted dictionary never holds more entries than the limit nor
\*      than its index level can address
DictBound == \A c \in Cols : sent[c] <= Last /\ (lvl[c] > 0 /\ pc = "idle" => sent[c] <= Caps[lvl[c]])
\* C08: the retry loop terminates
NoPanic == pc # "panic"
RetryBound == retries <= L + 2
\* index levels only widen, or fall back to a plain column for good
Widening == [][\A c \in Cols : lvl'[c] = 0 \/ (lvl[c] # 0 /\ lvl'[c] >= lvl[c])]_vars
PlainIsFinal == [][\A c \in Cols : lvl[c] = 0 => lvl'[c] = 0]_vars
TypeOK == /\ lvl \in [Cols -> 0..L] /\ pc \in {"idle", "build", "rebuild", "panic"}
          /\ \A c \in Cols : memo[c] >= 0 /\ cum[c] >= 0
=============================================================================
