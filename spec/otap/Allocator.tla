----------------------------- MODULE Allocator -----------------------------
(***************************************************************************)
(* The consumer's limited Arrow allocator (pkg/otel/common/arrow/          *)
(* allocator.go): an in-use counter checked against a limit before every   *)
(* Allocate / Reallocate; a request that would exceed the limit is refused *)
(* (panic with LimitError, recovered by the consumer into an error that    *)
(* errors.Is ErrConsumerMemoryLimit) and leaves the counter unchanged.     *)
(* Two allocators with limits Limit1 <= Limit2 receive the same requests   *)
(* (the monotonicity clause of C14): while the smaller one accepts, the    *)
(* larger one accepts too and both hold the same blocks.                   *)
(***************************************************************************)
EXTENDS Integers, Sequences, FiniteSets, TLC, Json

CONSTANTS Limit1, Limit2, MaxSize, MaxBlocks, MaxOps,
          MutCheckAfter,     \* mutant: the counter is updated before the limit test and not rolled back
          MutShrinkIgnored   \* mutant: a shrinking Reallocate does not give memory back
VARIABLES blocks,   \* sequence of sizes of the live blocks (same requests go to both allocators)
          inuse,    \* <<in use at limit 1, in use at limit 2>>
          alive,    \* <<BOOLEAN, BOOLEAN>>: an allocator that refused a request is retired (the consumer fails the batch)
          h         \* history of operations, for replay into the real allocator
vars == <<blocks, inuse, alive, h>>
Limit(i) == IF i = 1 THEN Limit1 ELSE Limit2

Init == blocks = <<>> /\ inuse = <<0, 0>> /\ alive = <<TRUE, TRUE>> /\ h = <<>>

\* one allocator sees a change of `d` bytes: <<new in-use, accepted>>
Try(i, d) ==
  IF ~alive[i] THEN <<inuse[i], FALSE>>
  ELSE IF inuse[i] + d > Limit(i) THEN <<(IF MutCheckAfter THEN inuse[i] + d ELSE inuse[i]), FALSE>>
  ELSE <<inuse[i] + d, TRUE>>

Step(op, d, newBlocks) ==
  LET r1 == Try(1, d) r2 == Try(2, d) IN
  /\ inuse' = <<r1[1], r2[1]>>
  /\ alive' = <<alive[1] /\ r1[2], alive[2] /\ r2[2]>>
  /\ blocks' = IF r2[2] \/ r1[2] THEN newBlocks ELSE blocks
  /\ h' = Append(h, op)

Allocate(n) ==
  /\ Len(blocks) < MaxBlocks /\ Len(h) < MaxOps /\ (alive[1] \/ alive[2])
  /\ Step(<<"alloc", n, 0>>, n, Append(blocks, n))
Reallocate(j, n) ==
  /\ j \in DOMAIN blocks /\ Len(h) < MaxOps /\ (alive[1] \/ alive[2])
  /\ LET d == IF MutShrinkIgnored /\ n < blocks[j] THEN 0 ELSE n - blocks[j]
     IN Step(<<"realloc", n, j>>, d, [blocks EXCEPT ![j] = n])
Free(j) ==
  /\ j \in DOMAIN blocks /\ Len(h) < MaxOps /\ (alive[1] \/ alive[2])
  /\ LET nb == SubSeq(blocks, 1, j - 1) \o SubSeq(blocks, j + 1, Len(blocks))
     IN Step(<<"free", 0, j>>, 0 - blocks[j], nb)

Next == (\E n \in 0..MaxSize : Allocate(n))
        \/ (\E j \in 1..MaxBlocks : \E n \in 0..MaxSize : Reallocate(j, n))
        \/ (\E j \in 1..MaxBlocks : Free(j))
Spec == Init /\ [][Next]_vars

RECURSIVE Sum(_)
Sum(s) == IF s = <<>> THEN 0 ELSE Head(s) + Sum(Tail(s))
\* C14: the reported in-use value never exceeds the limit, and it is exactly what is allocated
WithinLimit == inuse[1] <= Limit1 /\ inuse[2] <= Limit2
Accounting == \A i \in 1..2 : alive[i] => inuse[i] = Sum(blocks)
\* C14: raising the limit never turns an accepted request into a refused one
Monotone == alive[1] => alive[2]
SameWhileBothAlive == alive[1] /\ alive[2] => inuse[1] = inuse[2]
Emit == Len(h) = MaxOps => PrintT(<<"ALLOC", ToJson([l1 |-> Limit1, l2 |-> Limit2, ops |-> h])>>)
=============================================================================
