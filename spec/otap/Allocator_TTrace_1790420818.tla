---- MODULE Allocator_TTrace_1790420818 ----
EXTENDS Allocator, Sequences, TLCExt, Toolbox, Naturals, TLC

_expression ==
    LET Allocator_TEExpression == INSTANCE Allocator_TEExpression
    IN Allocator_TEExpression!expression
----

_trace ==
    LET Allocator_TETrace == INSTANCE Allocator_TETrace
    IN Allocator_TETrace!trace
----

_inv ==
    ~(
        TLCGet("level") = Len(_TETrace)
        /\
        alive = (<<TRUE, TRUE>>)
        /\
        blocks = (<<0>>)
        /\
        h = (<<<<"alloc", 2, 0>>, <<"realloc", 0, 1>>>>)
        /\
        inuse = (<<2, 2>>)
    )
----

_init ==
    /\ alive = _TETrace[1].alive
    /\ h = _TETrace[1].h
    /\ blocks = _TETrace[1].blocks
    /\ inuse = _TETrace[1].inuse
----

_next ==
    /\ \E i,j \in DOMAIN _TETrace:
        /\ \/ /\ j = i + 1
              /\ i = TLCGet("level")
        /\ alive  = _TETrace[i].alive
        /\ alive' = _TETrace[j].alive
        /\ h  = _TETrace[i].h
        /\ h' = _TETrace[j].h
        /\ blocks  = _TETrace[i].blocks
        /\ blocks' = _TETrace[j].blocks
        /\ inuse  = _TETrace[i].inuse
        /\ inuse' = _TETrace[j].inuse

\* Uncomment the ASSUME below to write the states of the error trace
\* to the given file in Json format. Note that you can pass any tuple
\* to `JsonSerialize`. For example, a sub-sequence of _TETrace.
    \* ASSUME
    \*     LET J == INSTANCE Json
    \*         IN J!JsonSerialize("Allocator_TTrace_1790420818.json", _TETrace)

=============================================================================

 Note that you can extract this module `Allocator_TEExpression`
  to a dedicated file to reuse `expression` (the module in the 
  dedicated `Allocator_TEExpression.tla` file takes precedence 
  over the module `Allocator_TEExpression` below).

---- MODULE Allocator_TEExpression ----
EXTENDS Allocator, Sequences, TLCExt, Toolbox, Naturals, TLC

expression == 
    [
        \* To hide variables of the `Allocator` spec from the error trace,
        \* remove the variables below.  The trace will be written in the order
        \* of the fields of this record.
        alive |-> alive
        ,h |-> h
        ,blocks |-> blocks
        ,inuse |-> inuse
        
        \* Put additional constant-, state-, and action-level expressions here:
        \* ,_stateNumber |-> _TEPosition
        \* ,_aliveUnchanged |-> alive = alive'
        
        \* Format the `alive` variable as Json value.
        \* ,_aliveJson |->
        \*     LET J == INSTANCE Json
        \*     IN J!ToJson(alive)
        
        \* Lastly, you may build expressions over arbitrary sets of states by
        \* leveraging the _TETrace operator.  For example, this is how to
        \* count the number of times a spec variable changed up to the current
        \* state in the trace.
        \* ,_aliveModCount |->
        \*     LET F[s \in DOMAIN _TETrace] ==
        \*         IF s = 1 THEN 0
        \*         ELSE IF _TETrace[s].alive # _TETrace[s-1].alive
        \*             THEN 1 + F[s-1] ELSE F[s-1]
        \*     IN F[_TEPosition - 1]
    ]

=============================================================================



Parsing and semantic processing can take forever if the trace below is long.
 In this case, it is advised to uncomment the module below to deserialize the
 trace from a generated binary file.

\*
\*---- MODULE Allocator_TETrace ----
\*EXTENDS Allocator, IOUtils, TLC
\*
\*trace == IODeserialize("Allocator_TTrace_1790420818.bin", TRUE)
\*
\*=============================================================================
\*

---- MODULE Allocator_TETrace ----
EXTENDS Allocator, TLC

trace == 
    <<
    ([alive |-> <<TRUE, TRUE>>,blocks |-> <<>>,h |-> <<>>,inuse |-> <<0, 0>>]),
    ([alive |-> <<TRUE, TRUE>>,blocks |-> <<2>>,h |-> <<<<"alloc", 2, 0>>>>,inuse |-> <<2, 2>>]),
    ([alive |-> <<TRUE, TRUE>>,blocks |-> <<0>>,h |-> <<<<"alloc", 2, 0>>, <<"realloc", 0, 1>>>>,inuse |-> <<2, 2>>])
    >>
----


=============================================================================

---- CONFIG Allocator_TTrace_1790420818 ----
CONSTANTS
    Limit1 = 4
    Limit2 = 6
    MaxSize = 3
    MaxBlocks = 3
    MaxOps = 6
    MutCheckAfter = FALSE
    MutShrinkIgnored = TRUE

INVARIANT
    _inv

CHECK_DEADLOCK
    \* CHECK_DEADLOCK off because of PROPERTY or INVARIANT above.
    FALSE

INIT
    _init

NEXT
    _next

CONSTANT
    _TETrace <- _trace

ALIAS
    _expression
=============================================================================
\* Generated on Sat Sep 26 11:06:59 UTC 2026