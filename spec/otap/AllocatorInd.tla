--------------------------- MODULE AllocatorInd ---------------------------
(***************************************************************************)
(* The counter logic of Allocator.tla with the live blocks abstracted to   *)
(* their total (`held`), over unbounded integers: Apalache proves          *)
(* IndInv inductive (Init => IndInv, IndInv /\ Next => IndInv'), i.e.      *)
(* WithinLimit, Accounting and Monotone hold for EVERY pair of limits      *)
(* Limit1 <= Limit2, every request size and every history length - not     *)
(* only within the bounds TLC explores on Allocator.tla.  Allocator.tla    *)
(* refines this module under held = Sum(blocks) (checked by TLC:           *)
(* property Abs!Spec in MC_AllocatorRef.tla).                              *)
(***************************************************************************)
EXTENDS Integers

CONSTANTS
  \* @type: Int;
  Limit1,
  \* @type: Int;
  Limit2

VARIABLES
  \* @type: Int;
  held,
  \* @type: Int;
  inuse1,
  \* @type: Int;
  inuse2,
  \* @type: Bool;
  alive1,
  \* @type: Bool;
  alive2

vars == <<held, inuse1, inuse2, alive1, alive2>>

ConstInit == Limit1 \in Int /\ Limit2 \in Int /\ 0 <= Limit1 /\ Limit1 <= Limit2

Init == held = 0 /\ inuse1 = 0 /\ inuse2 = 0 /\ alive1 = TRUE /\ alive2 = TRUE

\* a request changes the total held by d bytes (Allocate: d = n, Reallocate: d = n - old, Free: d = -old)
Change(d) ==
  /\ held + d >= 0
  /\ alive1 \/ alive2
  /\ LET ok1 == alive1 /\ inuse1 + d <= Limit1
         ok2 == alive2 /\ inuse2 + d <= Limit2
     IN /\ inuse1' = IF ok1 THEN inuse1 + d ELSE inuse1
        /\ inuse2' = IF ok2 THEN inuse2 + d ELSE inuse2
        /\ alive1' = ok1
        /\ alive2' = ok2
        /\ held' = IF ok1 \/ ok2 THEN held + d ELSE held

Next == \E d \in Int : Change(d)
Spec == Init /\ [][Next]_vars

WithinLimit == inuse1 <= Limit1 /\ inuse2 <= Limit2
Accounting == (alive1 => inuse1 = held) /\ (alive2 => inuse2 = held)
Monotone == alive1 => alive2

IndInit == held \in Int /\ inuse1 \in Int /\ inuse2 \in Int /\ alive1 \in BOOLEAN /\ alive2 \in BOOLEAN
IndInv == /\ held >= 0
          /\ WithinLimit /\ Accounting /\ Monotone
\* the inductive step starts from an arbitrary state that satisfies IndInv
IndInvInit == IndInit /\ IndInv
=============================================================================
