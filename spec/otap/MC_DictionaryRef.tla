-------------------------- MODULE MC_DictionaryRef --------------------------
(* Dictionary.tla (two columns "a" and "b", three index levels) refines DictionaryInd.tla under the identity on the   *)
(* shared state: every step of the bounded model is a NewBatchWith / Build / Rebuild of the abstract machine (the      *)
(* cumulative totals and the threshold test are hidden behind the abstract machine's free reset decision).  Together   *)
(* with Apalache's proof that DictionaryInd!IndInv is inductive this extends DictBound (C13) and NoPanic (C08) from the *)
(* explored bounds to all capacities, batch sizes and history lengths.                                                 *)
EXTENDS Dictionary

Abs == INSTANCE DictionaryInd WITH
         C1 <- Caps[1], C2 <- Caps[2], C3 <- Caps[3], MutNoResetGuard <- MutNoResetGuard,
         lvlA <- lvl["a"], lvlB <- lvl["b"], memoA <- memo["a"], memoB <- memo["b"],
         rpA <- resetPending["a"], rpB <- resetPending["b"], pc <- pc,
         dA <- d["a"], dB <- d["b"], ovlA <- ovl["a"], ovlB <- ovl["b"],
         fresh <- fresh, retries <- retries, sentA <- sent["a"], sentB <- sent["b"]

RefNext == \/ Abs!NewBatchWith(d'["a"], d'["b"], ovl'["a"], ovl'["b"])
           \/ Abs!Build \/ Abs!Rebuild
Refines == [][RefNext]_<<lvl, memo, resetPending, pc, d, ovl, fresh, retries, sent>>
AbsInv == Abs!IndInv
RefCaps == <<1, 2, 4>>
RefCols == {"a", "b"}
RefThrInf == 0 - 1
=============================================================================
