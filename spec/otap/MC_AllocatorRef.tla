-------------------------- MODULE MC_AllocatorRef --------------------------
(* Allocator.tla refines AllocatorInd.tla under held = Sum(blocks): every step of the bounded model is a Change(d) of the *)
(* abstract counter logic (or stutters).  Together with Apalache's unbounded proof of AllocatorInd!IndInv this extends    *)
(* WithinLimit / Accounting / Monotone from the explored bounds to all limits, sizes and histories.                     *)
EXTENDS Allocator

Abs == INSTANCE AllocatorInd WITH held <- Sum(blocks), inuse1 <- inuse[1], inuse2 <- inuse[2],
                                  alive1 <- alive[1], alive2 <- alive[2]

Deltas == (0 - MaxSize * MaxBlocks)..MaxSize
RefNext == \E d \in Deltas : Abs!Change(d)
Refines == Abs!Init /\ [][RefNext]_<<Sum(blocks), inuse, alive>>
AbsInv == Abs!IndInv
=============================================================================
