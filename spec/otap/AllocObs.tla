------------------------------ MODULE AllocObs ------------------------------
(* Judges what the real LimitedAllocator did on the operation sequences of   *)
(* Allocator.tla (records written by harness/otap TestAllocatorReplay): the  *)
(* C14 clauses on the actual values and step-by-step conformance with the    *)
(* specification.                                                            *)
EXTENDS Integers, Sequences, FiniteSets, TLC, Json
CONSTANT TraceFile
Trace == ndJsonDeserialize(TraceFile)
VARIABLES i, viol, drift
vars == <<i, viol, drift>>
Init == i = 1 /\ viol = {} /\ drift = {}

\* expected behaviour of ONE allocator with limit L on ops: sequence of <<in use after, accepted>>, retired after a refusal
RECURSIVE Run(_, _, _, _, _)
Run(ops, k, L, blocks, st) ==    \* st = <<inuse, alive>>
  IF k > Len(ops) THEN <<>>
  ELSE LET op == ops[k]
           d == CASE op[1] = "alloc" -> op[2]
                  [] op[1] = "realloc" -> op[2] - blocks[op[3]]
                  [] OTHER -> 0 - blocks[op[3]]
           ok == st[2] /\ st[1] + d <= L
           nb == IF ~ok THEN blocks
                 ELSE CASE op[1] = "alloc" -> Append(blocks, op[2])
                        [] op[1] = "realloc" -> [blocks EXCEPT ![op[3]] = op[2]]
                        [] OTHER -> SubSeq(blocks, 1, op[3] - 1) \o SubSeq(blocks, op[3] + 1, Len(blocks))
           ns == <<IF ok THEN st[1] + d ELSE st[1], ok>>
       IN <<ns>> \o Run(ops, k + 1, L, nb, ns)

Next ==
  /\ i <= Len(Trace)
  /\ i' = i + 1
  /\ LET e == Trace[i]
         exp == Run(e.ops, 1, e.limit, <<>>, <<0, TRUE>>)
         \* actual: e.res[k] = <<in use after, accepted (1/0), refusal recognisable as LimitError (1/0), other panic (1/0)>>
         over == \E k \in DOMAIN e.res : e.res[k][1] > e.limit
         unrec == \E k \in DOMAIN e.res : e.res[k][2] = 0 /\ e.res[k][3] = 0 /\ exp[k][2] = FALSE /\ (k = 1 \/ exp[k - 1][2])
         crash == \E k \in DOMAIN e.res : e.res[k][4] = 1
         same == /\ Len(e.res) = Len(exp)
                 /\ \A k \in DOMAIN e.res : (k = 1 \/ exp[k - 1][2]) => (e.res[k][1] = exp[k][1] /\ (e.res[k][2] = 1) = exp[k][2])
     IN /\ viol' = viol \cup (IF over THEN {<<e.n, "C14", "InUseExceedsLimit">>} ELSE {})
                       \cup (IF unrec THEN {<<e.n, "C14", "RefusalNotALimitError">>} ELSE {})
                       \cup (IF crash THEN {<<e.n, "C14", "AllocatorPanicsOtherwise">>} ELSE {})
        /\ drift' = drift \cup (IF same THEN {} ELSE {e.n})
Spec == Init /\ [][Next]_vars
Report == i <= Len(Trace) \/ PrintT(<<"ALLOCOBS-RESULT", Len(Trace), ToJson(viol), ToJson(drift)>>)
=============================================================================
