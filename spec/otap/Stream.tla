------------------------------- MODULE Stream -------------------------------
(***************************************************************************)
(* White-box specification of the payload-level stream protocol between    *)
(* arrow_record.Producer.Produce and arrow_record.Consumer.Consume         *)
(* (pkg/otel/arrow_record/producer.go, consumer.go), of the Arrow IPC      *)
(* reader state machine Consume drives (arrow-go ipc.Reader: NewReader     *)
(* reads the schema eagerly, Next turns EOF into "done" and any other      *)
(* failure into a sticky error) and of the payload-type dispatch of        *)
(* {traces,logs,metrics}/otlp RelatedDataFrom.                             *)
(*                                                                         *)
(* One action per loop iteration of the code:                              *)
(*   ProduceBatch  - Produce: per record message look the stream producer  *)
(*                   up by schema key, on a miss close every stream        *)
(*                   producer of the same payload type and take the next   *)
(*                   schema id; write one payload                          *)
(*   Fault*        - the batch is altered in flight (C07's alphabet)       *)
(*   ConsumeStep   - Consume: one iteration of the payload loop            *)
(*   Finish        - the count check and RelatedDataFrom + main decoder    *)
(*                                                                         *)
(* An IPC sub-stream is abstracted to: who wrote it (wid), the running     *)
(* number of the payload in it (ser), whether the payload starts with the  *)
(* schema message (first).  A reader decodes a payload "well" iff it has   *)
(* read the schema of the same writer and exactly the payloads before it   *)
(* (dictionary deltas are positional).  Anything else is outside C07's     *)
(* domain ("spliced IPC bytes").  `gapped` is the set of schema ids whose  *)
(* reader has not been given exactly the producer's payloads; a batch that *)
(* uses none of them is `judged`.                                          *)
(***************************************************************************)
EXTENDS Integers, Sequences, FiniteSets, TLC

CONSTANTS
  Signals,            \* e.g. {"t", "l"}
  MainOf,             \* [Signals -> payload type of the signal's main record]
  Related,            \* related payload types, e.g. {"R"}
  KnownOf,            \* [Signals -> payload types the signal's RelatedDataFrom dispatches on]
  Singletons,         \* payload types RelatedDataFrom accepts once per batch (main records, events, links, data points)
  Foreign,            \* a payload type label no signal knows (UNKNOWN / another family)
  Family,             \* [payload type -> schema family]: a typed decoder refuses a non-empty record of another family
  MaxFaults,          \* bound: faults per behaviour
  MutRetireBySignal,  \* mutant: a new schema key retires only stream producers created for the same signal
  MutNoRetire,        \* mutant: stream producers are never retired
  MutNilRelease,      \* mutant (pre-fix code): retiring a stream consumer whose reader never opened panics
  MutLenientCount,    \* mutant: the "fewer records than payloads" check only fires when nothing was decoded
  MutSkipUnknown,     \* mutant: RelatedDataFrom skips records of a type it does not know
  MutOpenOnCreate,    \* mutant: the IPC reader is opened only when the stream consumer is created (a failed open is never retried)
  MutNoRetainMain     \* mutant (the code before fix 8e767b7c): the main record lives only as long as its reader does not advance

VARIABLES
  pstreams,   \* producer: set of [key, id, pt, n, sig]   (streamProducers; n = payloads written)
  nextId, batchId,
  wire,       \* the batch in flight: sequence of payloads
  orig,       \* the batch as produced
  bsig,       \* signal of the batch in flight
  phase,      \* "idle" | "flight" | "consume" | "finish"
  cstreams,   \* consumer: set of [id, pt, st, src, cnt]   st: "unopened" | "open" | "done" | "err"
  pos, got,   \* Consume's loop index and the records decoded so far: [pt, wid, ser, rd (reader id), good]
  res,        \* outcome of the last Consume: "none" | "ok" | "empty" | "error" | "panic"
  nfaults,
  altered,    \* some batch has been altered in flight (history)
  gapped,     \* schema ids whose reader has not been given exactly the producer's payloads, in order (domain boundary of C07)
  judged,     \* the batch in flight only uses sub-streams that are not gapped
  \* history for the C12 properties
  ann,        \* id -> <<pt, key>> as first announced        (function over the ids used so far)
  retiredIds  \* ids whose payload type has since been moved to a newer id

vars == <<pstreams, nextId, batchId, wire, orig, bsig, phase, cstreams, pos, got, res, nfaults, altered, gapped, judged, ann, retiredIds>>

Main(s) == MainOf[s]
Known(s) == KnownOf[s]
Mains == {Main(s) : s \in Signals}
PTypes == {Main(s) : s \in Signals} \cup Related
Labels == PTypes \cup {Foreign}
UnknownId == -1

Init ==
  /\ pstreams = {} /\ nextId = 0 /\ batchId = 0
  /\ wire = <<>> /\ orig = <<>> /\ bsig = (CHOOSE s \in Signals : TRUE) /\ phase = "idle"
  /\ cstreams = {} /\ pos = 1 /\ got = <<>> /\ res = "none"
  /\ nfaults = 0 /\ altered = FALSE /\ gapped = {} /\ judged = TRUE
  /\ ann = <<>> /\ retiredIds = {}

---------------------------------------------------------------------------
\* Producer.Produce, one record message: st = [streams, next, out, ann, ret]
EmitOne(st, s, pt, key, rows) ==
  LET hit == {x \in st.streams : x.key = key} IN
  IF hit # {}
  THEN LET x == CHOOSE y \in hit : TRUE IN
       [st EXCEPT !.streams = (st.streams \ {x}) \cup {[x EXCEPT !.n = x.n + 1]},
                  !.out = Append(st.out, [id |-> x.id, pt |-> pt, tpt |-> pt, wid |-> x.id, ser |-> x.n + 1,
                                           first |-> FALSE, empty |-> FALSE, rows |-> rows])]
  ELSE LET dead == IF MutNoRetire THEN {}
                   ELSE {x \in st.streams : x.pt = pt /\ (MutRetireBySignal => x.sig = s)}
           id == st.next
       IN [streams |-> (st.streams \ dead) \cup {[key |-> key, id |-> id, pt |-> pt, n |-> 1, sig |-> s]},
           next |-> id + 1,
           out |-> Append(st.out, [id |-> id, pt |-> pt, tpt |-> pt, wid |-> id, ser |-> 1, first |-> TRUE, empty |-> FALSE, rows |-> rows]),
           ann |-> [i \in DOMAIN st.ann \cup {id} |-> IF i \in DOMAIN st.ann THEN st.ann[i] ELSE <<pt, key>>],
           ret |-> st.ret \cup {i \in DOMAIN st.ann : st.ann[i][1] = pt}]

RECURSIVE EmitAll(_, _, _)
EmitAll(st, s, recs) == IF recs = <<>> THEN st ELSE EmitAll(EmitOne(st, s, Head(recs)[1], Head(recs)[2], Head(recs)[3]), s, Tail(recs))

Ids(w) == {w[i].id : i \in 1..Len(w)}

\* recs: the record messages of one batch, main first: << <<pt, key, has rows>>, ... >>
ProduceBatch(s, recs) ==
  /\ phase = "idle"
  /\ LET st == EmitAll([streams |-> pstreams, next |-> nextId, out |-> <<>>, ann |-> ann, ret |-> retiredIds], s, recs)
     IN /\ pstreams' = st.streams /\ nextId' = st.next /\ ann' = st.ann /\ retiredIds' = st.ret
        /\ wire' = st.out /\ orig' = st.out
        \* a gapped sub-stream only matters while the consumer holds a reader that was opened on it: a reader that never
        \* opened (or none at all) has no state a hole could corrupt - the next payload simply tries to open it again
        /\ judged' = (\A x \in cstreams : x.id \in Ids(st.out) \cap gapped => x.st = "unopened")
  /\ batchId' = batchId + 1 /\ bsig' = s /\ phase' = "flight"
  /\ pos' = 1 /\ got' = <<>> /\ res' = "none"
  /\ UNCHANGED <<cstreams, nfaults, altered, gapped>>

---------------------------------------------------------------------------
\* payload-level faults (the alphabet of C07)
CanFault == phase = "flight" /\ nfaults < MaxFaults /\ Len(wire) > 0
\* C07 quantifies over a valid prefix followed by ONE altered batch: a batch altered after an earlier altered batch is not judged
Faulted(w) == /\ wire' = w /\ nfaults' = nfaults + 1 /\ altered' = TRUE
              /\ judged' = (judged /\ ~(altered /\ wire = orig))
              /\ UNCHANGED <<pstreams, nextId, batchId, orig, bsig, phase, cstreams, pos, got, res, gapped, ann, retiredIds>>
RemoveAt(w, i) == [k \in 1..(Len(w) - 1) |-> IF k < i THEN w[k] ELSE w[k + 1]]

FaultRelabel == CanFault /\ \E i \in 1..Len(wire), l \in Labels : l # wire[i].pt /\ Faulted([wire EXCEPT ![i].pt = l])
FaultDrop    == CanFault /\ \E i \in 1..Len(wire) : Faulted(RemoveAt(wire, i))
FaultDup     == CanFault /\ \E i \in 1..Len(wire) : Faulted(Append(wire, wire[i]))
FaultSwap    == CanFault /\ \E i, j \in 1..Len(wire) : i < j /\ Faulted([wire EXCEPT ![i] = wire[j], ![j] = wire[i]])
FaultEmpty   == CanFault /\ \E i \in 1..Len(wire) : ~wire[i].empty /\ Faulted([wire EXCEPT ![i].empty = TRUE])
FaultUnknown == CanFault /\ \E i \in 1..Len(wire) : wire[i].id # UnknownId /\ Faulted([wire EXCEPT ![i].id = UnknownId])
FaultStale   == CanFault /\ \E i \in 1..Len(wire), r \in retiredIds : wire[i].id # r /\ Faulted([wire EXCEPT ![i].id = r])
Fault == FaultRelabel \/ FaultDrop \/ FaultDup \/ FaultSwap \/ FaultEmpty \/ FaultUnknown \/ FaultStale

Deliver == /\ phase = "flight" /\ phase' = "consume"
           /\ UNCHANGED <<pstreams, nextId, batchId, wire, orig, bsig, cstreams, pos, got, res, nfaults, altered, gapped, judged, ann, retiredIds>>

---------------------------------------------------------------------------
\* the bytes of payload q are the producer's bytes of payload p
SameBytes(p, q) == p.wid = q.wid /\ p.ser = q.ser /\ ~p.empty /\ ~q.empty
\* the sub-streams that are gapped once the batch in flight has been consumed with result r
GapsAfter(r) ==
  LET miss == {orig[i].id : i \in {i \in 1..Len(orig) :
                  Cardinality({k \in 1..Len(wire) : wire[k].id = orig[i].id /\ SameBytes(orig[i], wire[k])}) # 1}}
      alien == {wire[k].id : k \in {k \in 1..Len(wire) :
                  ~\E i \in 1..Len(orig) : wire[k].id = orig[i].id /\ SameBytes(orig[i], wire[k])}}
      cut == IF r \in {"ok", "empty"} THEN {} ELSE Ids(orig)
  IN IF wire = orig THEN cut ELSE miss \cup alien \cup cut

\* Consumer.Consume, one iteration of the payload loop
Return(r) == /\ res' = r /\ phase' = "idle" /\ gapped' = gapped \cup GapsAfter(r)

ConsumeStep ==
  /\ phase = "consume" /\ pos <= Len(wire)
  /\ LET p == wire[pos]
         hit == {x \in cstreams : x.id = p.id}
         dead == IF hit # {} THEN {} ELSE {x \in cstreams : x.pt = p.pt}
         crash == \/ MutNilRelease /\ \E x \in dead : x.st = "unopened"
                  \/ MutOpenOnCreate /\ \E x \in hit : x.st = "unopened"      \* Next() on the nil reader of a failed open
         sc0 == IF hit # {} THEN CHOOSE x \in hit : TRUE
                ELSE [id |-> p.id, pt |-> p.pt, st |-> "unopened", src |-> UnknownId, cnt |-> 0]
         rest == (cstreams \ dead) \ hit
         \* ipc.NewReader: reads the schema message
         openFail == sc0.st = "unopened" /\ (p.empty \/ ~p.first)
         justOpened == sc0.st = "unopened" /\ ~openFail
         sc1 == IF justOpened THEN [sc0 EXCEPT !.st = "open", !.src = p.wid] ELSE sc0
         \* ipcReader.Next on the rest of the payload
         atEOF == p.empty                                   \* nothing to read
         schemaAgain == p.first /\ ~justOpened              \* a schema message where a record batch is expected
     IN IF crash THEN /\ Return("panic") /\ cstreams' = rest /\ UNCHANGED <<pos, got, judged>>
        ELSE IF openFail
        THEN /\ cstreams' = rest \cup {sc0} /\ Return("error") /\ UNCHANGED <<pos, got, judged>>
        ELSE IF sc1.st = "err"
        THEN /\ cstreams' = rest \cup {sc1} /\ Return("error") /\ UNCHANGED <<pos, got, judged>>
        ELSE IF sc1.st = "done"
        THEN /\ cstreams' = rest \cup {sc1} /\ pos' = pos + 1 /\ UNCHANGED <<got, res, phase, gapped, judged>>
        ELSE IF atEOF
        THEN /\ cstreams' = rest \cup {[sc1 EXCEPT !.st = "done"]} /\ pos' = pos + 1 /\ UNCHANGED <<got, res, phase, gapped, judged>>
        ELSE IF schemaAgain
        THEN /\ cstreams' = rest \cup {[sc1 EXCEPT !.st = "err"]} /\ Return("error") /\ UNCHANGED <<pos, got, judged>>
        ELSE /\ cstreams' = rest \cup {[sc1 EXCEPT !.cnt = sc1.cnt + 1]}
             /\ got' = Append(got, [pt |-> p.pt, tpt |-> p.tpt, wid |-> p.wid, ser |-> p.ser, rd |-> p.id, wp |-> pos, rows |-> p.rows,
                                    good |-> (sc1.src = p.wid /\ p.ser = sc1.cnt + 1)])
             \* a record batch read by a reader that holds another writer's schema: IPC bytes spliced between
             \* sub-streams, which is where C07's domain ends
             /\ judged' = (judged /\ sc1.src = p.wid)
             /\ pos' = pos + 1 /\ UNCHANGED <<res, phase, gapped>>
  /\ UNCHANGED <<pstreams, nextId, batchId, wire, orig, bsig, nfaults, altered, ann, retiredIds>>

\* the end of Consume (count check) followed by {Traces,Logs,Metrics}From
Finish ==
  /\ phase = "consume" /\ pos > Len(wire)
  /\ LET countErr == IF MutLenientCount THEN Len(got) = 0 /\ Len(wire) > 0 ELSE Len(got) < Len(wire)
         unknown == {i \in 1..Len(got) : got[i].pt \notin Known(bsig)}
         mains == {i \in 1..Len(got) : got[i].pt = Main(bsig)}
         mislabelled == {i \in 1..Len(got) : got[i].pt # got[i].tpt /\ got[i].pt \in Known(bsig)}
         refused == {i \in mislabelled : Family[got[i].pt] # Family[got[i].tpt]}
         \* a main record handed to another decoder is refused as soon as it has rows
         \* (the other direction - another record handed to the main decoder - is not always refused by the real decoders:
         \* absent columns are optional; observed as drift in the thorough tier, so it is left open here)
         sure == {i \in refused : got[i].rows /\ got[i].tpt \in Mains}
         twice == \E i, j \in 1..Len(got) : i < j /\ got[i].pt = got[j].pt /\ got[i].pt \in Singletons /\ got[i].pt \in Known(bsig)
         bad == {i \in 1..Len(got) : ~got[i].good}
         \* Reader.Next releases the record it handed out before and RelatedDataFrom drops Consume's own reference: a
         \* record whose reader was advanced again would be gone when the main decoder runs, had {Traces,Logs,Metrics}From
         \* not taken a reference of their own on the main records (fix 8e767b7c; before it: MutNoRetainMain)
         stale == {i \in 1..Len(got) : \E k \in (got[i].wp + 1)..Len(wire) : wire[k].id = got[i].rd}
     IN IF countErr THEN Return("error")
        ELSE IF unknown # {} /\ ~MutSkipUnknown THEN Return("error")
        ELSE IF twice THEN Return("error")
        ELSE IF sure # {} THEN Return("error")
        ELSE \/ (bad \cup refused) # {} /\ Return("error")     \* out of sequence, or an empty record of another family: may be refused
             \/ IF mains = {} THEN Return("empty")
                ELSE IF MutNoRetainMain /\ \E i \in mains \cap stale : got[i].rows THEN Return("panic")
                ELSE Return("ok")
  /\ UNCHANGED <<pstreams, nextId, batchId, wire, orig, bsig, cstreams, pos, got, nfaults, altered, judged, ann, retiredIds>>

ConsumerNext == Deliver \/ ConsumeStep \/ Finish

---------------------------------------------------------------------------
\* properties
Done == phase = "idle" /\ res # "none"
MainPresent == \E k \in 1..Len(wire) : wire[k].pt = Main(bsig) /\ wire[k].tpt = Main(bsig) /\ ~wire[k].empty

\* C07
NoPanic == Done /\ judged => res # "panic"
NoSilentLoss == Done /\ judged /\ res \in {"ok", "empty"} /\ MainPresent => res = "ok"
HealthyOK == Done /\ ~altered => res = "ok" /\ \A i \in 1..Len(got) : got[i].good
\* the domain rule is sound: a judged, unaltered batch is read in sequence by readers that hold its writer's schema
JudgedCleanInSequence == phase \in {"consume", "idle"} /\ judged /\ wire = orig => \A i \in 1..Len(got) : got[i].good
\* producer and consumer agree on the live sub-streams as long as nothing was altered
Sync == Done /\ ~altered =>
          /\ {<<x.id, x.pt>> : x \in cstreams} = {<<x.id, x.pt>> : x \in pstreams}
          /\ \A x \in cstreams : x.st = "open" /\ \E y \in pstreams : y.id = x.id /\ x.src = y.id /\ x.cnt = y.n

\* C12
IdDenotesOne == \A k \in 1..Len(orig) : orig[k].id \in DOMAIN ann /\ ann[orig[k].id][1] = orig[k].pt
                                         /\ \E x \in pstreams : x.id = orig[k].id /\ ann[x.id] = <<x.pt, x.key>>
NoReuse == \A k \in 1..Len(orig) : orig[k].id \notin retiredIds
SchemaFirst == \A k \in 1..Len(orig) : orig[k].first <=> orig[k].ser = 1
MainFirst == Len(orig) > 0 => orig[1].pt = Main(bsig)
OncePerType == \A i, j \in 1..Len(orig) : orig[i].pt = orig[j].pt => i = j
\* C15 (resource side): at most one live stream producer per payload type
LiveBound == \A x, y \in pstreams : x.pt = y.pt => x = y
ConsumerBound == ~altered => \A x, y \in cstreams : x.pt = y.pt => x = y
=============================================================================
