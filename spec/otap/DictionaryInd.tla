--------------------------- MODULE DictionaryInd ---------------------------
(***************************************************************************)
(* The dictionary state machine of Dictionary.tla over UNBOUNDED integers  *)
(* and SYMBOLIC capacities, for Apalache: three index levels with          *)
(* arbitrary capacities 0 < C1 < C2 < C3, two columns that share one Arrow *)
(* builder (the interaction that matters: a schema update requested by one *)
(* column rebuilds the other one too), batches of any size, any number of  *)
(* batches.  The reset-or-overflow decision (cardinality / total against   *)
(* the threshold: non-linear arithmetic) is abstracted to a free boolean   *)
(* per evaluation, which covers every threshold including the infinite     *)
(* one; the guard "no reset right after a reset" (resetPending) is kept,   *)
(* because it is what makes the retry loop terminate.                      *)
(*                                                                         *)
(* Apalache proves IndInv inductive (Init => IndInv at length 0,           *)
(* IndInv /\ Next => IndInv' at length 1).  IndInv contains                *)
(*   DictBound   a transmitted dictionary never exceeds the last capacity  *)
(*               nor the capacity of the index level it is sent with (C13) *)
(*   NoPanic     the retry loop of the record builder never exhausts its   *)
(*               MaxRetry = 5 attempts (C08); in fact retries <= 3         *)
(* for EVERY capacity triple, batch size, history length - not only within *)
(* the bounds TLC explores on Dictionary.tla.  The ranking argument is     *)
(* explicit: Rem(c) = schema updates column c can still ask for while the  *)
(* batch in hand is re-appended to fresh builders (0 plain or fits, 1 an   *)
(* upgrade or an overflow fixes it, 2 a reset and then an overflow), and   *)
(* retries + Rem stays <= 3.  Dictionary.tla refines this module (TLC,     *)
(* MC_DictionaryRef.tla).  With MutNoResetGuard = TRUE (the code before    *)
(* fix 818b11eb) the inductive step is refuted.                            *)
(***************************************************************************)
EXTENDS Integers

CONSTANTS
  \* @type: Int;
  C1,
  \* @type: Int;
  C2,
  \* @type: Int;
  C3,
  \* @type: Bool;
  MutNoResetGuard

MaxRetry == 5
L == 3

VARIABLES
  \* @type: Int;
  lvlA,
  \* @type: Int;
  lvlB,
  \* @type: Int;
  memoA,
  \* @type: Int;
  memoB,
  \* @type: Bool;
  rpA,
  \* @type: Bool;
  rpB,
  \* @type: Str;
  pc,
  \* @type: Int;
  dA,
  \* @type: Int;
  dB,
  \* @type: Int;
  ovlA,
  \* @type: Int;
  ovlB,
  \* @type: Bool;
  fresh,
  \* @type: Int;
  retries,
  \* @type: Int;
  sentA,
  \* @type: Int;
  sentB

vars == <<lvlA, lvlB, memoA, memoB, rpA, rpB, pc, dA, dB, ovlA, ovlB, fresh, retries, sentA, sentB>>

ConstInit == /\ C1 \in Int /\ C2 \in Int /\ C3 \in Int /\ 0 < C1 /\ C1 < C2 /\ C2 < C3
             /\ MutNoResetGuard = FALSE
ConstInitMut == /\ C1 \in Int /\ C2 \in Int /\ C3 \in Int /\ 0 < C1 /\ C1 < C2 /\ C2 < C3
                /\ MutNoResetGuard = TRUE

Cap(l) == IF l = 1 THEN C1 ELSE IF l = 2 THEN C2 ELSE C3
Last == C3
\* first level whose capacity holds card (L + 1: none); Climb(lv) of DictFn = the larger of lv and LevelFor(card)
LevelFor(card) == IF card <= C1 THEN 1 ELSE IF card <= C2 THEN 2 ELSE IF card <= C3 THEN 3 ELSE 4
Max(a, b) == IF a >= b THEN a ELSE b

Init ==
  /\ lvlA \in 1..L /\ lvlB \in 1..L            \* a column may start at any level (MinCard of its configuration)
  /\ memoA = 0 /\ memoB = 0 /\ rpA = FALSE /\ rpB = FALSE
  /\ pc = "idle" /\ dA = 0 /\ dB = 0 /\ ovlA = 0 /\ ovlB = 0
  /\ fresh = FALSE /\ retries = 0 /\ sentA = 0 /\ sentB = 0

NewBatchWith(a, b, oa, ob) ==
  /\ pc = "idle"
  /\ a >= 1 /\ b >= 1 /\ 0 <= oa /\ oa <= a /\ oa <= memoA /\ 0 <= ob /\ ob <= b /\ ob <= memoB
  /\ dA' = a /\ dB' = b /\ ovlA' = oa /\ ovlB' = ob
  /\ pc' = "build" /\ retries' = 0 /\ fresh' = FALSE
  /\ UNCHANGED <<lvlA, lvlB, memoA, memoB, rpA, rpB, sentA, sentB>>
NewBatch == \E a \in Int : \E b \in Int : \E oa \in Int : \E ob \in Int : NewBatchWith(a, b, oa, ob)

CardA == IF fresh THEN dA ELSE memoA + (dA - ovlA)
CardB == IF fresh THEN dB ELSE memoB + (dB - ovlB)

\* updateIndexType for one column with the threshold test abstracted to `wantReset`:
\* kind 0 = ok / plain, 1 = upgrade, 2 = reset, 3 = overflow
KindOf(lv, card, rp, wantReset) ==
  IF lv = 0 THEN 0
  ELSE IF Max(lv, LevelFor(card)) > L THEN (IF wantReset /\ (MutNoResetGuard \/ ~rp) THEN 2 ELSE 3)
  ELSE IF Max(lv, LevelFor(card)) # lv THEN 1 ELSE 0
LvlOf(lv, card, kind) == IF kind = 2 THEN L ELSE IF kind = 3 THEN 0 ELSE IF kind = 1 THEN Max(lv, LevelFor(card)) ELSE lv
RpOf(lv, rp, kind) == IF lv = 0 THEN FALSE ELSE IF kind = 2 THEN TRUE ELSE IF kind = 3 THEN rp ELSE FALSE

Build ==
  /\ pc = "build"
  /\ \E wa \in BOOLEAN : \E wb \in BOOLEAN :
       LET ka == KindOf(lvlA, CardA, rpA, wa)
           kb == KindOf(lvlB, CardB, rpB, wb)
       IN /\ lvlA' = LvlOf(lvlA, CardA, ka) /\ lvlB' = LvlOf(lvlB, CardB, kb)
          /\ rpA' = RpOf(lvlA, rpA, ka) /\ rpB' = RpOf(lvlB, rpB, kb)
          /\ IF ka # 0 \/ kb # 0
             THEN /\ pc' = "rebuild" /\ UNCHANGED <<memoA, memoB, sentA, sentB>>
             ELSE /\ pc' = "idle"
                  /\ memoA' = (IF lvlA = 0 THEN 0 ELSE CardA) /\ sentA' = (IF lvlA = 0 THEN 0 ELSE CardA)
                  /\ memoB' = (IF lvlB = 0 THEN 0 ELSE CardB) /\ sentB' = (IF lvlB = 0 THEN 0 ELSE CardB)
  /\ UNCHANGED <<dA, dB, ovlA, ovlB, fresh, retries>>

Rebuild ==
  /\ pc = "rebuild"
  /\ memoA' = 0 /\ memoB' = 0 /\ fresh' = TRUE /\ retries' = retries + 1
  /\ pc' = (IF retries + 1 > MaxRetry THEN "panic" ELSE "build")
  /\ UNCHANGED <<lvlA, lvlB, rpA, rpB, dA, dB, ovlA, ovlB, sentA, sentB>>

Next == NewBatch \/ Build \/ Rebuild
Spec == Init /\ [][Next]_vars

---------------------------------------------------------------------------
DictBound == /\ sentA <= Last /\ sentB <= Last
             /\ (pc = "idle" /\ lvlA > 0 => sentA <= Cap(lvlA))
             /\ (pc = "idle" /\ lvlB > 0 => sentB <= Cap(lvlB))
NoPanic == pc # "panic"

\* schema updates a column can still ask for once the batch is appended to fresh builders
Rem(lv, d, rp) == IF lv = 0 \/ d <= Cap(lv) THEN 0 ELSE IF d <= Last THEN 1 ELSE IF rp THEN 1 ELSE 2
MaxRem == Max(Rem(lvlA, dA, rpA), Rem(lvlB, dB, rpB))

TypeOK ==
  /\ lvlA \in 0..L /\ lvlB \in 0..L
  /\ pc \in {"idle", "build", "rebuild", "panic"}
  /\ memoA >= 0 /\ memoB >= 0 /\ dA >= 0 /\ dB >= 0 /\ ovlA >= 0 /\ ovlB >= 0 /\ retries >= 0 /\ sentA >= 0 /\ sentB >= 0

IndInv ==
  /\ TypeOK /\ DictBound /\ NoPanic
  /\ (lvlA > 0 => memoA <= Cap(lvlA)) /\ (lvlB > 0 => memoB <= Cap(lvlB))
  /\ (pc # "idle" => dA >= 1 /\ dB >= 1 /\ ovlA <= dA /\ ovlB <= dB)
  /\ (pc # "idle" /\ ~fresh => retries = 0 /\ ovlA <= memoA /\ ovlB <= memoB)
  /\ (pc # "idle" /\ fresh => memoA = 0 /\ memoB = 0)
  /\ (pc = "build" /\ fresh => retries + MaxRem <= 3)
  /\ (pc = "rebuild" /\ fresh => retries + 1 + MaxRem <= 3)
  /\ (pc = "idle" => retries <= 3)

IndInit ==
  /\ lvlA \in 0..L /\ lvlB \in 0..L
  /\ memoA \in Int /\ memoB \in Int /\ rpA \in BOOLEAN /\ rpB \in BOOLEAN
  /\ pc \in {"idle", "build", "rebuild", "panic"}
  /\ dA \in Int /\ dB \in Int /\ ovlA \in Int /\ ovlB \in Int
  /\ fresh \in BOOLEAN /\ retries \in Int /\ sentA \in Int /\ sentB \in Int
IndInvInit == IndInit /\ IndInv
=============================================================================
