------------------------------ MODULE DictObs ------------------------------
(***************************************************************************)
(* Binds Dictionary.tla / DictFn.tla to the real producer: for every       *)
(* dictionary column of every record of every recorded stream, the         *)
(* observer events (upgrade / overflow / reset with the cardinality and    *)
(* total the code itself reports), the number and kind of schema updates   *)
(* of the record, and the dictionary an independent Arrow reader holds     *)
(* afterwards must be what updateIndexType, the shared-builder rebuild and *)
(* RevertCounters of the specification produce.  One NDJSON record per     *)
(* (stream, record label, column, batch), in stream order:                 *)
(*   col   column id;  first = 1 on the first record of the column         *)
(*   rows  values appended (rows of the record)                            *)
(*   g     schema-update groups of this encode: <<kind, event, card, total>>*)
(*         kind "early" (new fields: no dictionary evaluation) or "dict"   *)
(*   bits, entries   index width and size of the transmitted dictionary    *)
(*                   (0, 0 = plain column)                                 *)
(*   caps, thr       capacities per index level, threshold <<num, den>>    *)
(* Deterministic: the cardinalities are logged, nothing has to be guessed. *)
(***************************************************************************)
EXTENDS DictFn, Json
CONSTANT TraceFile
Trace == ndJsonDeserialize(TraceFile)
VARIABLES i, cols, drift
vars == <<i, cols, drift>>
Init == i = 1 /\ cols = [x \in {} |-> 0] /\ drift = {}

Fresh0 == [lvl |-> 1, memo |-> 0, cum |-> 0, prevCum |-> 0, rp |-> FALSE, fresh |-> FALSE, ok |-> TRUE, why |-> ""]
BitsOfLevel(caps, lv) == CASE lv = 0 -> 0 [] caps[lv] = 255 -> 8 [] caps[lv] = 65535 -> 16 [] OTHER -> 32
Fail(s, w) == [s EXCEPT !.ok = FALSE, !.why = IF s.why = "" THEN w ELSE s.why]

\* one schema-update group: the build before it (which evaluated the dictionaries iff kind = "dict"), then the rebuild
Group(s, e, gr) ==
  LET afterEval ==
        IF gr[1] = "early" THEN (IF gr[2] = "" THEN s ELSE Fail(s, "dictionary event in a new-field group"))
        ELSE IF s.lvl = 0 THEN (IF gr[2] = "" THEN s ELSE Fail(s, "event on a plain column"))
        ELSE IF gr[2] = ""
             THEN [s EXCEPT !.prevCum = s.cum, !.cum = s.cum + e.rows, !.rp = FALSE]      \* evaluated, within capacity
             ELSE LET u == UpdateFn(e.caps, e.thr[1], e.thr[2], s.lvl, gr[3], s.cum, e.rows, s.rp, FALSE, FALSE)
                      s1 == [s EXCEPT !.prevCum = s.cum, !.lvl = u[1], !.cum = u[2], !.rp = u[3]]
                  IN IF u[4] # gr[2] THEN Fail(s1, "event kind: code " \o gr[2] \o ", spec " \o u[4])
                     ELSE IF gr[4] # s.cum + e.rows THEN Fail(s1, "cumulative total differs")
                     ELSE IF s.fresh /\ gr[3] > e.rows THEN Fail(s1, "cardinality of a fresh builder exceeds the rows")
                     ELSE IF ~s.fresh /\ gr[3] < s.memo THEN Fail(s1, "cardinality shrank without a rebuild")
                     ELSE s1
  IN [afterEval EXCEPT !.cum = afterEval.prevCum, !.memo = 0, !.fresh = TRUE]       \* UpdateSchema: RevertCounters, fresh builder

RECURSIVE Groups(_, _, _)
Groups(s, e, k) == IF k > Len(e.g) THEN s ELSE Groups(Group(s, e, e.g[k]), e, k + 1)

Final(s, e) ==
  IF s.lvl = 0
  THEN (IF e.bits = 0 THEN [s EXCEPT !.fresh = FALSE] ELSE Fail(s, "spec: plain column, wire: dictionary"))
  ELSE IF e.bits = 0 THEN Fail(s, "spec: dictionary, wire: plain column")
  ELSE LET u == UpdateFn(e.caps, e.thr[1], e.thr[2], s.lvl, e.entries, s.cum, e.rows, s.rp, FALSE, FALSE)
           s1 == [s EXCEPT !.prevCum = s.cum, !.cum = u[2], !.rp = u[3], !.memo = e.entries, !.fresh = FALSE]
       IN IF u[4] # "ok" THEN Fail(s1, "spec would " \o u[4] \o " on the emitted record")
          ELSE IF e.bits # BitsOfLevel(e.caps, s.lvl) THEN Fail(s1, "index width differs")
          ELSE IF ~s.fresh /\ e.entries < s.memo THEN Fail(s1, "dictionary shrank without a rebuild")
          ELSE IF ~s.fresh /\ e.entries - s.memo > e.rows THEN Fail(s1, "more new entries than rows")
          ELSE IF s.fresh /\ e.entries > e.rows THEN Fail(s1, "more entries than rows in a fresh builder")
          ELSE s1

Next ==
  /\ i <= Len(Trace)
  /\ i' = i + 1
  /\ LET e == Trace[i]
         s0 == IF e.first = 1 \/ e.col \notin DOMAIN cols THEN [Fresh0 EXCEPT !.lvl = IF Len(e.caps) = 0 THEN 0 ELSE 1] ELSE cols[e.col]
         s1 == IF s0.ok THEN Final(Groups([s0 EXCEPT !.fresh = FALSE], e, 1), e) ELSE s0     \* after a mismatch the column is no longer followed
     IN /\ cols' = (e.col :> s1) @@ cols
        /\ drift' = IF s0.ok /\ ~s1.ok THEN drift \cup {<<e.n, e.col, e.k, s1.why>>} ELSE drift
Spec == Init /\ [][Next]_vars
Report == i <= Len(Trace) \/ PrintT(<<"DICTOBS-RESULT", Len(Trace), Cardinality(DOMAIN cols), ToJson(drift)>>)
=============================================================================
