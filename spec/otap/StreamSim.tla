----------------------------- MODULE StreamSim -----------------------------
(***************************************************************************)
(* Behaviour generator for Stream.tla (tlc -simulate): the bounded         *)
(* instance MC_Stream plus a history of the environment's choices - which  *)
(* batch was produced (signal, schema levels, related records) and how it  *)
(* was altered in flight.  A finished behaviour is printed as JSON and     *)
(* concretised by the orchestrator into a stream for the real producer /   *)
(* consumer (positions are positions in the batch in flight at that        *)
(* moment, labels are the abstract payload types).                         *)
(***************************************************************************)
EXTENDS MC_Stream, Json

VARIABLE h
svars == <<mcvars, h>>

Log(x) == h' = Append(h, x)

SimInit == MCInit /\ h = <<>>

SimProduce ==
  /\ batchId < MaxBatches
  /\ \E s \in Signals, m \in Levels, r \in Levels, withR \in SUBSET Related :
       /\ m >= lvl[s].m /\ r >= lvl[s].r
       /\ lvl' = [lvl EXCEPT ![s] = [m |-> m, r |-> r]]
       /\ LET rel == CHOOSE q \in [1..Cardinality(withR) -> withR] : \A i, j \in DOMAIN q : q[i] = q[j] => i = j
          IN ProduceBatch(s, <<<<Main(s), <<Main(s), m>>, TRUE>>>> \o [i \in DOMAIN rel |-> <<rel[i], <<rel[i], r>>, TRUE>>])
       /\ Log([op |-> "produce", s |-> s, m |-> m, r |-> r, rel |-> Cardinality(withR), i |-> 0, j |-> 0, l |-> ""])

F(kind, i, j, l) == Log([op |-> kind, s |-> "", m |-> 0, r |-> 0, rel |-> 0, i |-> i, j |-> j, l |-> l])

SimFault ==
  /\ CanFault /\ UNCHANGED lvl
  /\ \/ \E i \in 1..Len(wire), l \in Labels : l # wire[i].pt /\ Faulted([wire EXCEPT ![i].pt = l]) /\ F("relabel", i, 0, l)
     \/ \E i \in 1..Len(wire) : Faulted(RemoveAt(wire, i)) /\ F("drop", i, 0, "")
     \/ \E i \in 1..Len(wire) : Faulted(Append(wire, wire[i])) /\ F("dup", i, 0, "")
     \/ \E i, j \in 1..Len(wire) : i < j /\ Faulted([wire EXCEPT ![i] = wire[j], ![j] = wire[i]]) /\ F("swap", i, j, "")
     \/ \E i \in 1..Len(wire) : ~wire[i].empty /\ Faulted([wire EXCEPT ![i].empty = TRUE]) /\ F("empty", i, 0, "")
     \/ \E i \in 1..Len(wire) : wire[i].id # UnknownId /\ Faulted([wire EXCEPT ![i].id = UnknownId]) /\ F("unknownSid", i, 0, "")
     \/ \E i \in 1..Len(wire), r \in retiredIds : wire[i].id # r /\ Faulted([wire EXCEPT ![i].id = r]) /\ F("staleSid", i, 0, "")

\* faults are rarer than deliveries, so that streams get long enough to have state
SimNext ==
  \/ SimProduce
  \/ (RandomElement(1..3) = 1 /\ SimFault)
  \/ (ConsumerNext /\ UNCHANGED <<lvl, h>>)
SimSpec == SimInit /\ [][SimNext]_svars

Finished == batchId = MaxBatches /\ phase = "idle" /\ res # "none"
Emit == Finished => PrintT(<<"BEHAVIOUR", ToJson([h |-> h, res |-> res])>>)
=============================================================================
