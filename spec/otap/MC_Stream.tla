----------------------------- MODULE MC_Stream -----------------------------
(* Bounded instance of Stream.tla: schema keys are <<payload type, level>>;   *)
(* the level of each record builder only grows (schema changes are additive). *)
EXTENDS Stream
CONSTANTS Levels, MaxBatches

MCMainOf == [s \in Signals |-> s]     \* the signal's name doubles as its main payload type

MCFamily == [p \in PTypes \cup {Foreign} |-> IF p \in Related THEN "attrs" ELSE p]

MCKnownOf == [s \in Signals |-> {s} \cup Related]
MCSingletons == Signals \cup (Related \ {"R"})

VARIABLE lvl     \* [Signals -> [m |-> level of the main record, r |-> level of the related record]]
mcvars == <<vars, lvl>>

MCInit == Init /\ lvl = [s \in Signals |-> [m |-> 1, r |-> 1]]

\* one batch of signal s: the main record, optionally each related record; levels may grow first
MCProduce ==
  /\ batchId < MaxBatches
  /\ \E s \in Signals, m \in Levels, r \in Levels, withR \in SUBSET Related :
       /\ m >= lvl[s].m /\ r >= lvl[s].r
       /\ lvl' = [lvl EXCEPT ![s] = [m |-> m, r |-> r]]
       /\ LET rel == CHOOSE q \in [1..Cardinality(withR) -> withR] : \A i, j \in DOMAIN q : q[i] = q[j] => i = j
          IN ProduceBatch(s, <<<<Main(s), <<Main(s), m>>, TRUE>>>> \o [i \in DOMAIN rel |-> <<rel[i], <<rel[i], r>>, TRUE>>])

MCNext == MCProduce \/ ((Fault \/ ConsumerNext) /\ UNCHANGED lvl)
MCSpec == MCInit /\ [][MCNext]_mcvars
=============================================================================
