---- MODULE MC_Dictionary_TTrace_1790415115 ----
EXTENDS Sequences, TLCExt, MC_Dictionary, Toolbox, Naturals, TLC

_expression ==
    LET MC_Dictionary_TEExpression == INSTANCE MC_Dictionary_TEExpression
    IN MC_Dictionary_TEExpression!expression
----

_trace ==
    LET MC_Dictionary_TETrace == INSTANCE MC_Dictionary_TETrace
    IN MC_Dictionary_TETrace!trace
----

_inv ==
    ~(
        TLCGet("level") = Len(_TETrace)
        /\
        prevCum = ([a |-> 12])
        /\
        lvl = ([a |-> 2])
        /\
        d = ([a |-> 5])
        /\
        ovl = ([a |-> 2])
        /\
        memo = ([a |-> 0])
        /\
        resetPending = ([a |-> TRUE])
        /\
        sent = ([a |-> 2])
        /\
        n = ([a |-> 6])
        /\
        retries = (5)
        /\
        batches = (4)
        /\
        pc = ("build")
        /\
        cum = ([a |-> 12])
        /\
        fresh = (TRUE)
    )
----

_init ==
    /\ fresh = _TETrace[1].fresh
    /\ cum = _TETrace[1].cum
    /\ d = _TETrace[1].d
    /\ n = _TETrace[1].n
    /\ pc = _TETrace[1].pc
    /\ ovl = _TETrace[1].ovl
    /\ retries = _TETrace[1].retries
    /\ resetPending = _TETrace[1].resetPending
    /\ sent = _TETrace[1].sent
    /\ lvl = _TETrace[1].lvl
    /\ batches = _TETrace[1].batches
    /\ prevCum = _TETrace[1].prevCum
    /\ memo = _TETrace[1].memo
----

_next ==
    /\ \E i,j \in DOMAIN _TETrace:
        /\ \/ /\ j = i + 1
              /\ i = TLCGet("level")
        /\ fresh  = _TETrace[i].fresh
        /\ fresh' = _TETrace[j].fresh
        /\ cum  = _TETrace[i].cum
        /\ cum' = _TETrace[j].cum
        /\ d  = _TETrace[i].d
        /\ d' = _TETrace[j].d
        /\ n  = _TETrace[i].n
        /\ n' = _TETrace[j].n
        /\ pc  = _TETrace[i].pc
        /\ pc' = _TETrace[j].pc
        /\ ovl  = _TETrace[i].ovl
        /\ ovl' = _TETrace[j].ovl
        /\ retries  = _TETrace[i].retries
        /\ retries' = _TETrace[j].retries
        /\ resetPending  = _TETrace[i].resetPending
        /\ resetPending' = _TETrace[j].resetPending
        /\ sent  = _TETrace[i].sent
        /\ sent' = _TETrace[j].sent
        /\ lvl  = _TETrace[i].lvl
        /\ lvl' = _TETrace[j].lvl
        /\ batches  = _TETrace[i].batches
        /\ batches' = _TETrace[j].batches
        /\ prevCum  = _TETrace[i].prevCum
        /\ prevCum' = _TETrace[j].prevCum
        /\ memo  = _TETrace[i].memo
        /\ memo' = _TETrace[j].memo

\* Uncomment the ASSUME below to write the states of the error trace
\* to the given file in Json format. Note that you can pass any tuple
\* to `JsonSerialize`. For example, a sub-sequence of _TETrace.
    \* ASSUME
    \*     LET J == INSTANCE Json
    \*         IN J!JsonSerialize("MC_Dictionary_TTrace_1790415115.json", _TETrace)

=============================================================================

 Note that you can extract this module `MC_Dictionary_TEExpression`
  to a dedicated file to reuse `expression` (the module in the 
  dedicated `MC_Dictionary_TEExpression.tla` file takes precedence 
  over the module `MC_Dictionary_TEExpression` below).

---- MODULE MC_Dictionary_TEExpression ----
EXTENDS Sequences, TLCExt, MC_Dictionary, Toolbox, Naturals, TLC

expression == 
    [
        \* To hide variables of the `MC_Dictionary` spec from the error trace,
        \* remove the variables below.  The trace will be written in the order
        \* of the fields of this record.
        fresh |-> fresh
        ,cum |-> cum
        ,d |-> d
        ,n |-> n
        ,pc |-> pc
        ,ovl |-> ovl
        ,retries |-> retries
        ,resetPending |-> resetPending
        ,sent |-> sent
        ,lvl |-> lvl
        ,batches |-> batches
        ,prevCum |-> prevCum
        ,memo |-> memo
        
        \* Put additional constant-, state-, and action-level expressions here:
        \* ,_stateNumber |-> _TEPosition
        \* ,_freshUnchanged |-> fresh = fresh'
        
        \* Format the `fresh` variable as Json value.
        \* ,_freshJson |->
        \*     LET J == INSTANCE Json
        \*     IN J!ToJson(fresh)
        
        \* Lastly, you may build expressions over arbitrary sets of states by
        \* leveraging the _TETrace operator.  For example, this is how to
        \* count the number of times a spec variable changed up to the current
        \* state in the trace.
        \* ,_freshModCount |->
        \*     LET F[s \in DOMAIN _TETrace] ==
        \*         IF s = 1 THEN 0
        \*         ELSE IF _TETrace[s].fresh # _TETrace[s-1].fresh
        \*             THEN 1 + F[s-1] ELSE F[s-1]
        \*     IN F[_TEPosition - 1]
    ]

=============================================================================



Parsing and semantic processing can take forever if the trace below is long.
 In this case, it is advised to uncomment the module below to deserialize the
 trace from a generated binary file.

\*
\*---- MODULE MC_Dictionary_TETrace ----
\*EXTENDS IOUtils, MC_Dictionary, TLC
\*
\*trace == IODeserialize("MC_Dictionary_TTrace_1790415115.bin", TRUE)
\*
\*=============================================================================
\*

---- MODULE MC_Dictionary_TETrace ----
EXTENDS MC_Dictionary, TLC

trace == 
    <<
    ([prevCum |-> [a |-> 0],lvl |-> [a |-> 1],d |-> [a |-> 0],ovl |-> [a |-> 0],memo |-> [a |-> 0],resetPending |-> [a |-> FALSE],sent |-> [a |-> 0],n |-> [a |-> 0],retries |-> 0,batches |-> 0,pc |-> "idle",cum |-> [a |-> 0],fresh |-> FALSE]),
    ([prevCum |-> [a |-> 0],lvl |-> [a |-> 1],d |-> [a |-> 1],ovl |-> [a |-> 0],memo |-> [a |-> 0],resetPending |-> [a |-> FALSE],sent |-> [a |-> 0],n |-> [a |-> 2],retries |-> 0,batches |-> 1,pc |-> "build",cum |-> [a |-> 0],fresh |-> FALSE]),
    ([prevCum |-> [a |-> 0],lvl |-> [a |-> 1],d |-> [a |-> 1],ovl |-> [a |-> 0],memo |-> [a |-> 1],resetPending |-> [a |-> FALSE],sent |-> [a |-> 1],n |-> [a |-> 2],retries |-> 0,batches |-> 1,pc |-> "idle",cum |-> [a |-> 2],fresh |-> FALSE]),
    ([prevCum |-> [a |-> 0],lvl |-> [a |-> 1],d |-> [a |-> 1],ovl |-> [a |-> 0],memo |-> [a |-> 1],resetPending |-> [a |-> FALSE],sent |-> [a |-> 1],n |-> [a |-> 4],retries |-> 0,batches |-> 2,pc |-> "build",cum |-> [a |-> 2],fresh |-> FALSE]),
    ([prevCum |-> [a |-> 2],lvl |-> [a |-> 1],d |-> [a |-> 1],ovl |-> [a |-> 0],memo |-> [a |-> 2],resetPending |-> [a |-> FALSE],sent |-> [a |-> 2],n |-> [a |-> 4],retries |-> 0,batches |-> 2,pc |-> "idle",cum |-> [a |-> 6],fresh |-> FALSE]),
    ([prevCum |-> [a |-> 2],lvl |-> [a |-> 1],d |-> [a |-> 1],ovl |-> [a |-> 1],memo |-> [a |-> 2],resetPending |-> [a |-> FALSE],sent |-> [a |-> 2],n |-> [a |-> 6],retries |-> 0,batches |-> 3,pc |-> "build",cum |-> [a |-> 6],fresh |-> FALSE]),
    ([prevCum |-> [a |-> 6],lvl |-> [a |-> 1],d |-> [a |-> 1],ovl |-> [a |-> 1],memo |-> [a |-> 2],resetPending |-> [a |-> FALSE],sent |-> [a |-> 2],n |-> [a |-> 6],retries |-> 0,batches |-> 3,pc |-> "idle",cum |-> [a |-> 12],fresh |-> FALSE]),
    ([prevCum |-> [a |-> 6],lvl |-> [a |-> 1],d |-> [a |-> 5],ovl |-> [a |-> 2],memo |-> [a |-> 2],resetPending |-> [a |-> FALSE],sent |-> [a |-> 2],n |-> [a |-> 6],retries |-> 0,batches |-> 4,pc |-> "build",cum |-> [a |-> 12],fresh |-> FALSE]),
    ([prevCum |-> [a |-> 12],lvl |-> [a |-> 2],d |-> [a |-> 5],ovl |-> [a |-> 2],memo |-> [a |-> 2],resetPending |-> [a |-> TRUE],sent |-> [a |-> 2],n |-> [a |-> 6],retries |-> 0,batches |-> 4,pc |-> "rebuild",cum |-> [a |-> 0],fresh |-> FALSE]),
    ([prevCum |-> [a |-> 12],lvl |-> [a |-> 2],d |-> [a |-> 5],ovl |-> [a |-> 2],memo |-> [a |-> 0],resetPending |-> [a |-> TRUE],sent |-> [a |-> 2],n |-> [a |-> 6],retries |-> 1,batches |-> 4,pc |-> "build",cum |-> [a |-> 12],fresh |-> TRUE]),
    ([prevCum |-> [a |-> 12],lvl |-> [a |-> 2],d |-> [a |-> 5],ovl |-> [a |-> 2],memo |-> [a |-> 0],resetPending |-> [a |-> TRUE],sent |-> [a |-> 2],n |-> [a |-> 6],retries |-> 1,batches |-> 4,pc |-> "rebuild",cum |-> [a |-> 0],fresh |-> TRUE]),
    ([prevCum |-> [a |-> 12],lvl |-> [a |-> 2],d |-> [a |-> 5],ovl |-> [a |-> 2],memo |-> [a |-> 0],resetPending |-> [a |-> TRUE],sent |-> [a |-> 2],n |-> [a |-> 6],retries |-> 2,batches |-> 4,pc |-> "build",cum |-> [a |-> 12],fresh |-> TRUE]),
    ([prevCum |-> [a |-> 12],lvl |-> [a |-> 2],d |-> [a |-> 5],ovl |-> [a |-> 2],memo |-> [a |-> 0],resetPending |-> [a |-> TRUE],sent |-> [a |-> 2],n |-> [a |-> 6],retries |-> 2,batches |-> 4,pc |-> "rebuild",cum |-> [a |-> 0],fresh |-> TRUE]),
    ([prevCum |-> [a |-> 12],lvl |-> [a |-> 2],d |-> [a |-> 5],ovl |-> [a |-> 2],memo |-> [a |-> 0],resetPending |-> [a |-> TRUE],sent |-> [a |-> 2],n |-> [a |-> 6],retries |-> 3,batches |-> 4,pc |-> "build",cum |-> [a |-> 12],fresh |-> TRUE]),
    ([prevCum |-> [a |-> 12],lvl |-> [a |-> 2],d |-> [a |-> 5],ovl |-> [a |-> 2],memo |-> [a |-> 0],resetPending |-> [a |-> TRUE],sent |-> [a |-> 2],n |-> [a |-> 6],retries |-> 3,batches |-> 4,pc |-> "rebuild",cum |-> [a |-> 0],fresh |-> TRUE]),
    ([prevCum |-> [a |-> 12],lvl |-> [a |-> 2],d |-> [a |-> 5],ovl |-> [a |-> 2],memo |-> [a |-> 0],resetPending |-> [a |-> TRUE],sent |-> [a |-> 2],n |-> [a |-> 6],retries |-> 4,batches |-> 4,pc |-> "build",cum |-> [a |-> 12],fresh |-> TRUE]),
    ([prevCum |-> [a |-> 12],lvl |-> [a |-> 2],d |-> [a |-> 5],ovl |-> [a |-> 2],memo |-> [a |-> 0],resetPending |-> [a |-> TRUE],sent |-> [a |-> 2],n |-> [a |-> 6],retries |-> 4,batches |-> 4,pc |-> "rebuild",cum |-> [a |-> 0],fresh |-> TRUE]),
    ([prevCum |-> [a |-> 12],lvl |-> [a |-> 2],d |-> [a |-> 5],ovl |-> [a |-> 2],memo |-> [a |-> 0],resetPending |-> [a |-> TRUE],sent |-> [a |-> 2],n |-> [a |-> 6],retries |-> 5,batches |-> 4,pc |-> "build",cum |-> [a |-> 12],fresh |-> TRUE])
    >>
----


=============================================================================

---- CONFIG MC_Dictionary_TTrace_1790415115 ----
CONSTANTS
    Cols = { "a" }
    Caps <- MCCaps2
    ThrNum = 3
    ThrDen = 10
    MaxN = 6
    MaxBatches = 4
    MaxRetry = 5
    MutNoResetGuard = TRUE
    MutKeepWidening = FALSE

INVARIANT
    _inv

CHECK_DEADLOCK
    \* CHECK_DEADLOCK off because of PROPERTY or INVARIANT above.
    FALSE

INIT
    _init

NEXT
    _next

CONSTANT
    _TETrace <- _trace

ALIAS
    _expression
=============================================================================
\* Generated on Sat Sep 26 09:31:57 UTC 2026