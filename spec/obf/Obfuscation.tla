----------------------------- MODULE Obfuscation -----------------------------
(***************************************************************************)
(* What the obfuscation processor does to ONE attribute tree, over an      *)
(* abstract value grammar (collector/processor/obfuscationprocessor,       *)
(* processor.go: processAttrs / processSliceValue / encryptString).        *)
(*                                                                         *)
(*   value  ::= str(a) | bytes(a) | int | double | bool | unset            *)
(*            | slice(<<value ...>>) | map(<<[k, value] ...>>)  depth <= 2 *)
(*   a      in  {"empty","one","ascii","nonascii","rep"}  (string classes) *)
(*   k      ::= [c in {"listed","unlisted"}]     (position makes it unique)*)
(*   mode   in  {"all","list"}    (encrypt_all / encrypt_attributes list)  *)
(*                                                                         *)
(* The cipher is an UNINTERPRETED injective, length-preserving function E  *)
(* on strings: a leaf carries `enc`; [s |-> a, enc |-> TRUE] stands for    *)
(* E(a).  E(a) = E(b) iff a = b and Len(E(a)) = Len(a) by construction.    *)
(*                                                                         *)
(* Two descriptions are kept apart and compared by TLC on every tree:      *)
(*  - Expected(tree, mode): the structural statement of property C17: the  *)
(*    same tree where every string/bytes leaf is annotated with a policy   *)
(*    "must" (targeted: replaced by E), "keep" (identical) or "either"     *)
(*    (not pinned down by the property), and every other leaf "keep";      *)
(*  - the state machine Init/Next: the code's algorithm (rebuild every map *)
(*    into a copy attribute by attribute, recurse, copy the copy back).    *)
(* Every initial state (one per enumerated case) is printed as JSON; the   *)
(* Go harness (harness/obf) concretises it into pdata for all signals and  *)
(* attribute sites and runs the real processor on it.                      *)
(*                                                                         *)
(* Mutant switches (FALSE in the registered configurations) falsify the    *)
(* invariants, which shows they are not vacuous:                           *)
(*   MutDropUnlisted  list mode does not copy unlisted attributes (this IS *)
(*                    the behaviour of the pinned code, defect #11)        *)
(*   MutSkipSlice     strings inside slices are not encrypted              *)
(*   MutCollide       E maps "ascii" and "rep" to the same substitute      *)
(*   MutGrow          E("one") is longer than "one"                        *)
(***************************************************************************)
EXTENDS Integers, Sequences, FiniteSets, TLC, Json

CONSTANTS Tier,              \* "quick" | "thorough": size of the case space
          MutDropUnlisted, MutSkipSlice, MutCollide, MutGrow

Modes    == {"all", "list"}
KeyCls   == {"listed", "unlisted"}
Alphabet == {"empty", "one", "ascii", "nonascii", "rep"}
AbsLen(a) == CASE a = "empty" -> 0 [] a = "one" -> 1 [] a = "ascii" -> 8
               [] a = "nonascii" -> 7 [] a = "rep" -> 8 [] OTHER -> 0

\* ------------------------------------------------------------ the grammar
Str(a)   == [t |-> "str",   s |-> a, enc |-> FALSE]
Byt(a)   == [t |-> "bytes", s |-> a, enc |-> FALSE]
Sc(t)    == [t |-> t,       s |-> "", enc |-> FALSE]     \* int double bool unset
Slice(e) == [t |-> "slice", e |-> e]
Map(e)   == [t |-> "map",   e |-> e]
Key(c)   == [c |-> c, enc |-> FALSE]
At(c, v) == [k |-> Key(c), v |-> v]

IsLeaf(v)   == v.t \notin {"slice", "map"}
IsString(v) == v.t \in {"str", "bytes"}

SeqsOf(S, lo, hi) == UNION {[1..m -> S] : m \in lo..hi}
Entries(Vs) == {At(c, v) : c \in KeyCls, v \in Vs}

Quick == Tier = "quick"
Scalars    == {Sc("int"), Sc("double"), Sc("bool"), Sc("unset")}
TopLeaves  == {Str(a) : a \in Alphabet} \cup {Byt("empty"), Byt("ascii"), Byt("nonascii")} \cup Scalars
InLeaves   == IF Quick THEN {Str("ascii"), Str("rep"), Str("empty"), Byt("ascii"), Sc("int")}
              ELSE {Str(a) : a \in Alphabet} \cup {Byt("ascii"), Sc("int"), Sc("bool")}
PairLeaves == {Str("ascii"), Sc("int")}
DeepLeaves == IF Quick THEN {Str("ascii"), Sc("int")} ELSE {Str("ascii"), Str("nonascii"), Byt("ascii"), Sc("int")}

\* containers of leaves (nesting depth 1)
C1 == {Slice(e) : e \in SeqsOf(InLeaves, 0, 2)}
      \cup {Map(e) : e \in SeqsOf(Entries(InLeaves), 0, 1)}
      \cup {Map(e) : e \in SeqsOf(Entries(IF Quick THEN PairLeaves ELSE DeepLeaves), 2, 2)}
\* the inner containers used at depth 2
C1r == {Slice(<<>>), Map(<<>>), Slice(<<Str("ascii"), Sc("int")>>)}
       \cup {Slice(<<d>>) : d \in DeepLeaves}
       \cup {Map(<<e>>) : e \in Entries(DeepLeaves)}
       \cup {Map(<<At("listed", Str("ascii")), At("unlisted", Str("ascii"))>>),
             Map(<<At("unlisted", Str("ascii")), At("listed", Str("rep"))>>)}
\* containers of containers (nesting depth 2)
C2 == {Slice(<<c>>) : c \in C1r} \cup {Slice(<<Str("ascii"), c>>) : c \in C1r}
      \cup {Map(<<At(k, c)>>) : k \in KeyCls, c \in C1r}
      \cup {Map(<<At(k1, Str("ascii")), At(k2, c)>>) : k1 \in KeyCls, k2 \in KeyCls, c \in C1r}

Values  == TopLeaves \cup C1 \cup C2
\* values used when two / three attributes are combined
V2 == TopLeaves \cup {Slice(<<Str("ascii")>>), Map(<<At("listed", Str("ascii"))>>), Map(<<At("unlisted", Str("ascii"))>>)}
         \cup (IF Quick THEN {} ELSE C1r)
V3 == IF Quick THEN {Str("ascii"), Str("rep"), Sc("int")}
      ELSE {Str("ascii"), Str("rep"), Str("empty"), Sc("int"), Byt("ascii"), Slice(<<Str("ascii")>>)}

\* ALL attribute maps of the abstract grammar within the bounds
Trees == SeqsOf(Entries(Values), 0, 1) \cup SeqsOf(Entries(V2), 2, 2) \cup SeqsOf(Entries(V3), 3, 3)
Cases == {[mode |-> m, attrs |-> t] : m \in Modes, t \in Trees}

\* ------------------------------------------------------------ the cipher
E(v) == IF v.s = "empty" THEN v                                 \* the only string of length 0
        ELSE IF MutCollide /\ v.s = "rep" THEN [v EXCEPT !.s = "ascii", !.enc = TRUE]
        ELSE [v EXCEPT !.enc = TRUE]
LenOf(v) == IF MutGrow /\ v.enc /\ v.s = "one" THEN 2 ELSE AbsLen(v.s)

\* ------------------------------------------------------------ Expected
\* path state: "A" encrypt_all; "0" no key seen yet; "L" every key on the path listed;
\* "U" every key unlisted; "X" mixed (not pinned down by the property)
NextSt(st, c) == IF st = "A" THEN "A"
                 ELSE LET x == IF c = "listed" THEN "L" ELSE "U"
                      IN IF st = "0" THEN x ELSE IF st = x THEN st ELSE "X"
Pol(st, v) == IF ~IsString(v) THEN "keep"
              ELSE CASE st \in {"A", "L"} -> "must" [] st = "U" -> "keep" [] OTHER -> "either"

RECURSIVE ExpVal(_, _), ExpAttrs(_, _)
ExpVal(v, st) ==
  CASE v.t = "slice" -> [t |-> "slice", e |-> [j \in DOMAIN v.e |-> ExpVal(v.e[j], st)]]
    [] v.t = "map"   -> [t |-> "map", e |-> ExpAttrs(v.e, st)]
    [] OTHER         -> [t |-> v.t, s |-> v.s, enc |-> v.enc, pol |-> Pol(st, v)]
ExpAttrs(attrs, st) ==
  [j \in DOMAIN attrs |-> [k |-> attrs[j].k, v |-> ExpVal(attrs[j].v, NextSt(st, attrs[j].k.c))]]
Expected(attrs, mode) == ExpAttrs(attrs, IF mode = "all" THEN "A" ELSE "0")

\* `out` is allowed by the annotated tree `exp`: same containers, same number and order of
\* attributes and elements, same kinds; must -> E(original), keep -> identical, either -> one
\* of the two; a key is the original or its substitute.
RECURSIVE OkVal(_, _), OkAttrs(_, _)
OkVal(x, o) ==
  /\ x.t = o.t
  /\ CASE x.t = "slice" -> Len(x.e) = Len(o.e) /\ \A j \in DOMAIN x.e : OkVal(x.e[j], o.e[j])
       [] x.t = "map"   -> OkAttrs(x.e, o.e)
       [] OTHER -> LET orig == [t |-> x.t, s |-> x.s, enc |-> x.enc] IN
                   CASE x.pol = "must" -> o = E(orig)
                     [] x.pol = "keep" -> o = orig
                     [] OTHER -> o \in {orig, E(orig)}
OkAttrs(xs, os) ==
  /\ Len(xs) = Len(os)
  /\ \A j \in DOMAIN xs : /\ os[j].k \in {xs[j].k, [xs[j].k EXCEPT !.enc = TRUE]}
                          /\ OkVal(xs[j].v, os[j].v)

\* ------------------------------------------------------------ the algorithm
RECURSIVE ProcVal(_, _), ProcAttrs(_, _), ProcSlice(_, _)
Flat(ss) == LET RECURSIVE F(_)
                F(j) == IF j > Len(ss) THEN <<>> ELSE ss[j] \o F(j + 1)
            IN F(1)
\* one iteration of the Range callback of processAttrs: what is put into the copy
ProcAttr(a, mode) ==
  IF mode = "list" /\ a.k.c = "unlisted"
  THEN IF MutDropUnlisted THEN <<>> ELSE <<a>>               \* not in the list: kept as it is
  ELSE <<[k |-> [a.k EXCEPT !.enc = TRUE], v |-> ProcVal(a.v, mode)]>>
ProcAttrs(attrs, mode) == Flat([j \in DOMAIN attrs |-> ProcAttr(attrs[j], mode)])
\* processSliceValue: every string / bytes element, whatever the mode
ProcSlice(es, mode) ==
  [j \in DOMAIN es |->
     IF IsLeaf(es[j]) THEN (IF IsString(es[j]) /\ ~MutSkipSlice THEN E(es[j]) ELSE es[j])
     ELSE ProcVal(es[j], mode)]
ProcVal(v, mode) ==
  CASE v.t = "slice" -> [v EXCEPT !.e = ProcSlice(v.e, mode)]
    [] v.t = "map"   -> [v EXCEPT !.e = ProcAttrs(v.e, mode)]
    [] OTHER         -> IF IsString(v) THEN E(v) ELSE v

VARIABLES mode, tree,   \* the case
          pos, cpy,     \* Range position in the top-level map and the rebuilt copy
          out, pc
vars == <<mode, tree, pos, cpy, out, pc>>

Init == /\ \E c \in Cases : mode = c.mode /\ tree = c.attrs
        /\ pos = 1 /\ cpy = <<>> /\ out = <<>> /\ pc = "range"
RangeStep == /\ pc = "range" /\ pos <= Len(tree)
             /\ cpy' = cpy \o ProcAttr(tree[pos], mode)
             /\ pos' = pos + 1
             /\ UNCHANGED <<mode, tree, out, pc>>
CopyBack  == /\ pc = "range" /\ pos > Len(tree)
             /\ out' = cpy /\ pc' = "done"
             /\ UNCHANGED <<mode, tree, pos, cpy>>
Next == RangeStep \/ CopyBack
Spec == Init /\ [][Next]_vars

\* ------------------------------------------------------------ invariants
Done == pc = "done"

\* shape: the tree with string contents, `enc` and key substitution erased
RECURSIVE ShapeVal(_), ShapeAttrs(_)
ShapeVal(v) == CASE v.t = "slice" -> [t |-> "slice", e |-> [j \in DOMAIN v.e |-> ShapeVal(v.e[j])]]
                 [] v.t = "map"   -> [t |-> "map", e |-> ShapeAttrs(v.e)]
                 [] OTHER         -> [t |-> v.t, e |-> <<>>]
ShapeAttrs(as) == [j \in DOMAIN as |-> [c |-> as[j].k.c, v |-> ShapeVal(as[j].v)]]

\* the leaves of a tree, with their position, as a set of <<path, leaf>>
RECURSIVE LeavesVal(_, _), LeavesAttrs(_, _)
LeavesVal(v, p) == CASE v.t = "slice" -> UNION {LeavesVal(v.e[j], Append(p, j)) : j \in DOMAIN v.e}
                     [] v.t = "map"   -> LeavesAttrs(v.e, p)
                     [] OTHER         -> {<<p, v>>}
LeavesAttrs(as, p) == UNION {LeavesVal(as[j].v, Append(p, j)) : j \in DOMAIN as}
LeafAt(ls, p) == (CHOOSE x \in ls : x[1] = p)[2]

InLeavesOf  == LeavesAttrs(tree, <<>>)
OutLeavesOf == LeavesAttrs(out, <<>>)
ExpLeavesOf == LeavesAttrs(Expected(tree, mode), <<>>)
Paths(ls)   == {x[1] : x \in ls}

\* C17, sentence 1: nothing added, dropped or reordered
ShapePreserved == Done => ShapeAttrs(out) = ShapeAttrs(tree)
\* the algorithm produces a tree the structural statement allows
ImplConforms == Done => OkAttrs(Expected(tree, mode), out)
\* every leaf keeps its (abstract) byte length
LengthPreserved ==
  Done /\ Paths(OutLeavesOf) = Paths(InLeavesOf) =>
    \A x \in InLeavesOf : LenOf(LeafAt(OutLeavesOf, x[1])) = LenOf(x[2])
\* numbers, booleans, unset and everything under unlisted keys only: identical
UntargetedUnchanged ==
  Done /\ Paths(OutLeavesOf) = Paths(InLeavesOf) =>
    \A x \in ExpLeavesOf : x[2].pol = "keep" =>
        LeafAt(OutLeavesOf, x[1]) = [t |-> x[2].t, s |-> x[2].s, enc |-> x[2].enc]
\* the substitution observed on one tree is a function and an injection
SubstOfCase == {<<x[2], LeafAt(OutLeavesOf, x[1])>> :
                  x \in {y \in InLeavesOf : IsString(y[2]) /\ LeafAt(OutLeavesOf, y[1]) # y[2]}}
FunctionalInjective ==
  Done /\ Paths(OutLeavesOf) = Paths(InLeavesOf) =>
    \A p, q \in SubstOfCase : (p[1] = q[1]) <=> (p[2] = q[2])
\* sanity of Expected itself: it never changes the shape, "all" has no untouched string, a
\* list that names every key asks exactly what "all" asks, nothing is targeted without a listed key
RECURSIVE KeysVal(_), KeysAttrs(_)
KeysVal(v) == CASE v.t = "slice" -> UNION {KeysVal(v.e[j]) : j \in DOMAIN v.e}
                [] v.t = "map" -> KeysAttrs(v.e)
                [] OTHER -> {}
KeysAttrs(as) == UNION {{as[j].k.c} \cup KeysVal(as[j].v) : j \in DOMAIN as}
ExpectedSane ==
  /\ ShapeAttrs(Expected(tree, mode)) = ShapeAttrs(tree)
  /\ mode = "all" => \A x \in ExpLeavesOf : IsString(x[2]) => x[2].pol = "must"
  /\ KeysAttrs(tree) \subseteq {"listed"} => Expected(tree, "list") = Expected(tree, "all")
  /\ mode = "list" /\ KeysAttrs(tree) \subseteq {"unlisted"} => \A x \in ExpLeavesOf : x[2].pol = "keep"
  /\ \A x \in ExpLeavesOf : ~IsString(x[2]) => x[2].pol = "keep"

\* ------------------------------------------------------------ case emission
RECURSIVE PlainVal(_), PlainAttrs(_)
PlainVal(v) == CASE v.t = "slice" -> [t |-> "slice", e |-> [j \in DOMAIN v.e |-> PlainVal(v.e[j])]]
                 [] v.t = "map"   -> [t |-> "map", e |-> PlainAttrs(v.e)]
                 [] OTHER         -> [t |-> v.t, s |-> v.s]
PlainAttrs(as) == [j \in DOMAIN as |-> [k |-> as[j].k.c, v |-> PlainVal(as[j].v)]]
\* printed once per case (the initial states are the cases)
Emit == (pc = "range" /\ pos = 1 /\ cpy = <<>>) =>
          PrintT("CASE " \o ToJson([mode |-> mode, attrs |-> PlainAttrs(tree)]))
=============================================================================
