------------------------------- MODULE ObfObs -------------------------------
(***************************************************************************)
(* Black-box specification of the obfuscation processor: property C17      *)
(* stated over what goes into Consume{Traces,Logs,Metrics} and what the    *)
(* next consumer receives.  A deterministic monitor: it consumes the       *)
(* events recorded from the REAL processor by harness/obf                  *)
(*                                                                         *)
(*   Begin    a new processor instance: mode ("all" = encrypt_all, "list"  *)
(*            = encrypt_attributes), listed keys (tagged strings)          *)
(*   Process  one call: the dumped input tree (deep copy taken before the  *)
(*            call), the dumped output tree, outcome ok|panic|...          *)
(*                                                                         *)
(* and accumulates in `viol` every instance of a clause found false, as    *)
(* <<instance no, "C17", clause, seq>>.  The substitution learned from all *)
(* Process events of the current instance is kept in `subst`.              *)
(*                                                                         *)
(* Dump format (harness/obf/dump.go), every leaf a tagged string because   *)
(* TLC has neither floats nor 64-bit integers:                             *)
(*   Node  [ty, f: <<[n, v: Value]>>, a: <<Entry>>, c: <<Node>>]           *)
(*   Entry [key: "s:<hex>", kn: byte length, v: Value]                     *)
(*   Value [k, v, n]  k in s x i d b u id: a leaf (v tagged, n length)     *)
(*         [k, e]     k = "L": e = <<Value>>;  k = "M": e = <<Entry>>      *)
(*                                                                         *)
(* Clauses (what the property states, and not more):                       *)
(*   SameShape            same containers in the same order, same number   *)
(*                        and order of attributes in every map, same value *)
(*                        kinds, same nesting                              *)
(*   NumbersBoolsUnchanged every int/double/bool/unset/id leaf identical   *)
(*   UntargetedUnchanged  list mode: every string / bytes value reached    *)
(*                        through unlisted keys only is identical; string  *)
(*                        fields no configuration targets are identical    *)
(*   LengthPreserved      a replaced string has the same byte length       *)
(*   Functional           equal originals, equal substitutes (instance)    *)
(*   Injective            different originals, different substitutes       *)
(*   Targeted             targeted strings are in fact replaced (see below)*)
(*   NoPanic / NoOutput   the call returned and handed on one batch        *)
(*                                                                         *)
(* Leniency, where the statement does not pin the behaviour down: an       *)
(* attribute KEY (both modes), a name-like field (scope name / version,    *)
(* span name, status message, event name, metric name / description, log   *)
(* body, metric metadata, exemplar attributes), any string field in "all"  *)
(* mode, and a string under a path that mixes listed and unlisted keys may *)
(* be the original or a same-length substitute consistent with `subst`.    *)
(* A length-preserving injection may map a string to itself ("" always     *)
(* is), so an unchanged targeted string is not a violation in itself; it   *)
(* is recorded as the identity substitution (hence Functional fires when   *)
(* the same string is replaced elsewhere), and Targeted fires only when    *)
(* two distinct targeted strings of at least 4 bytes are left unchanged by *)
(* one instance (probability < 2^-60 for any real cipher).                 *)
(***************************************************************************)
EXTENDS Integers, Sequences, FiniteSets, TLC, Json

CONSTANT TraceFile
Trace == ndJsonDeserialize(TraceFile)

VARIABLES
  i,        \* next event
  cfg,      \* the Begin record of the current instance
  subst,    \* set of <<original, substitute>> learned so far (tagged strings)
  plain,    \* targeted originals (>= 4 bytes) this instance left unchanged
  viol,     \* set of <<instance, "C17", clause, seq>>
  detail,   \* a few <<seq, clause, item>> for the human reader
  pend      \* the comparison of the current Process event (a call is judged in two steps:
            \* compare the trees, then judge the differences -- TLC evaluates each part once)

vars == <<i, cfg, subst, plain, viol, detail, pend>>
NotYet == [ready |-> FALSE, items |-> {}]

Init ==
  /\ i = 1
  /\ cfg = [mode |-> "all", listed |-> <<>>, tr |-> 0]
  /\ subst = {} /\ plain = {}
  /\ viol = {} /\ detail = {}
  /\ pend = NotYet

SeqSet(s) == {s[j] : j \in DOMAIN s}
ModeAll == cfg.mode = "all"
Listed  == SeqSet(cfg.listed)

\* fields that may be rewritten in list mode as well (the traces path does so unconditionally)
NameLike == {"scope.name", "scope.version", "span.name", "status.message", "event.name",
             "metric.name", "metric.description", "metric.metadata", "body", "exemplars"}

---------------------------------------------------------------------------
\* path states: "A" everything targeted (encrypt_all); "0" attribute root in list mode, no key
\* seen yet; "L" only listed keys on the path; "U" only unlisted keys; "X" mixed; "E" lenient
\* context (either); "K" nothing may change
NextSt(st, key) ==
  IF st \in {"A", "E", "K"} THEN st
  ELSE LET x == IF key \in Listed THEN "L" ELSE "U"
       IN IF st = "0" THEN x ELSE IF st = x THEN st ELSE "X"

Pol(st, kind) ==
  IF kind \notin {"s", "x"} THEN "fixed"
  ELSE CASE st \in {"A", "L"} -> "must"
         [] st \in {"U", "K"} -> "keep"
         [] OTHER -> "either"

AttrRoot == IF ModeAll THEN "A" ELSE "0"
FieldSt(name) == IF ModeAll \/ name \in NameLike THEN "E" ELSE "K"

\* the comparison of two trees yields a set of items, all records of one shape
Leaf(kind, pol, a, b, na, nb) == [c |-> "leaf", kind |-> kind, pol |-> pol, a |-> a, b |-> b, na |-> na, nb |-> nb]
Shape(where, what, na, nb)    == [c |-> "shape", kind |-> what, pol |-> "", a |-> where, b |-> "", na |-> na, nb |-> nb]

\* An unchanged value that no configuration targets ("fixed", "keep") or need not target ("either")
\* says nothing: it yields no item.  A targeted leaf always yields one (the identity is learned).
Quiet(st) == st \in {"E", "K", "U", "X"}

RECURSIVE ValItems(_, _, _, _), MapItems(_, _, _, _)
ValItems(x, y, st, where) ==
  IF Quiet(st) /\ x = y THEN {}
  ELSE IF x.k # y.k THEN {Shape(where, "value kind " \o x.k \o " became " \o y.k, 0, 0)}
  ELSE IF x.k = "L" THEN
    IF Len(x.e) # Len(y.e) THEN {Shape(where, "slice length", Len(x.e), Len(y.e))}
    ELSE UNION {ValItems(x.e[j], y.e[j], st, where) : j \in DOMAIN x.e}
  ELSE IF x.k = "M" THEN MapItems(x.e, y.e, st, where)
  ELSE IF x.v = y.v /\ Pol(st, x.k) # "must" THEN {}
  ELSE {Leaf(x.k, Pol(st, x.k), x.v, y.v, x.n, y.n)}

MapItems(xs, ys, st, where) ==
  IF Len(xs) # Len(ys) THEN {Shape(where, "number of attributes", Len(xs), Len(ys))}
  ELSE UNION {  (IF xs[j].key = ys[j].key THEN {}
                 ELSE {Leaf("s", "either", xs[j].key, ys[j].key, xs[j].kn, ys[j].kn)})
                \cup ValItems(xs[j].v, ys[j].v, NextSt(st, xs[j].key), where)
              : j \in DOMAIN xs}

FieldItems(fx, fy, ty) ==
  IF Len(fx) # Len(fy) THEN {Shape(ty, "fields", Len(fx), Len(fy))}
  ELSE UNION {IF fx[j].n # fy[j].n THEN {Shape(ty, "field " \o fx[j].n, 0, 0)}
              ELSE ValItems(fx[j].v, fy[j].v, FieldSt(fx[j].n), ty \o "." \o fx[j].n)
              : j \in DOMAIN fx}

RECURSIVE NodeItems(_, _)
NodeItems(x, y) ==
  IF x.ty # y.ty THEN {Shape(x.ty, "container became " \o y.ty, 0, 0)}
  ELSE FieldItems(x.f, y.f, x.ty)
       \cup MapItems(x.a, y.a, AttrRoot, x.ty \o " attributes")
       \cup (IF Len(x.c) # Len(y.c) THEN {Shape(x.ty, "number of children", Len(x.c), Len(y.c))}
             ELSE UNION {NodeItems(x.c[j], y.c[j]) : j \in DOMAIN x.c})

---------------------------------------------------------------------------
V(clause, ev) == <<ev.tr, "C17", clause, ev.seq>>

OnBegin(ev) ==
  /\ cfg' = ev
  /\ subst' = {} /\ plain' = {}
  /\ UNCHANGED <<viol, detail>>

\* the pairs of N that conflict with a pair of A.  Operators with parameters on purpose: TLC evaluates an argument once,
\* whereas a LET-bound set is re-evaluated at every use (a union of thousands of pairs inside a quantifier body took
\* hours on a long-lived instance)
FunConf(N, A) == {p \in N : \E q \in A : q[1] = p[1] /\ q[2] # p[2]}
InjConf(N, A) == {p \in N : \E q \in A : q[2] = p[2] /\ q[1] # p[1]}

OnProcess(ev) ==
  IF ev.outcome # "ok" THEN
    /\ viol' = viol \cup {V(IF ev.outcome = "panic" THEN "NoPanic" ELSE "NoOutput", ev)}
    /\ UNCHANGED <<cfg, subst, plain, detail>>
  ELSE
  LET items   == pend.items
      leaves  == {x \in items : x.c = "leaf"}
      strs    == {x \in leaves : x.kind \in {"s", "x"}}
      bShape  == {x \in items : x.c = "shape"}
      bFixed  == {x \in leaves : x.pol = "fixed" /\ x.a # x.b}
      bKeep   == {x \in strs : x.pol = "keep" /\ x.a # x.b}
      repl    == {x \in strs : x.pol \in {"must", "either"} /\ x.a # x.b}
      bLen    == {x \in repl : x.na # x.nb}
      \* what this call teaches about the substitution: every replacement, and the identity
      \* for targeted strings that were left as they are
      new     == {<<x.a, x.b>> : x \in repl} \cup {<<x.a, x.b>> : x \in {y \in strs : y.pol = "must"}}
      all     == subst \cup new
      \* a set of pairs is a function iff it has as many first components as pairs (an injection:
      \* second components); a clause is reported when a call adds a conflict
      FunDef(S) == Cardinality(S) - Cardinality({q[1] : q \in S})
      InjDef(S) == Cardinality(S) - Cardinality({q[2] : q \in S})
      bFun    == IF FunDef(all) > FunDef(subst) THEN FunConf(new, all) ELSE {}
      bInj    == IF InjDef(all) > InjDef(subst) THEN InjConf(new, all) ELSE {}
      same    == {x.a : x \in {y \in strs : y.pol = "must" /\ y.a = y.b /\ y.na >= 4}}
      bPlain  == IF same \ plain # {} /\ Cardinality(plain \cup same) >= 2 THEN same ELSE {}
      found   == (IF bShape # {} THEN {"SameShape"} ELSE {})
                 \cup (IF bFixed # {} THEN {"NumbersBoolsUnchanged"} ELSE {})
                 \cup (IF bKeep # {} THEN {"UntargetedUnchanged"} ELSE {})
                 \cup (IF bLen # {} THEN {"LengthPreserved"} ELSE {})
                 \cup (IF bFun # {} THEN {"Functional"} ELSE {})
                 \cup (IF bInj # {} THEN {"Injective"} ELSE {})
                 \cup (IF bPlain # {} THEN {"Targeted"} ELSE {})
      Pick(S) == IF S = {} THEN {} ELSE {CHOOSE x \in S : TRUE}
      why     == {<<ev.seq, "SameShape", x>> : x \in Pick(bShape)}
                 \cup {<<ev.seq, "NumbersBoolsUnchanged", x>> : x \in Pick(bFixed)}
                 \cup {<<ev.seq, "UntargetedUnchanged", x>> : x \in Pick(bKeep)}
                 \cup {<<ev.seq, "LengthPreserved", x>> : x \in Pick(bLen)}
                 \cup {<<ev.seq, "Functional", Leaf("s", "", p[1], p[2], 0, 0)>> : p \in Pick(bFun)}
                 \cup {<<ev.seq, "Injective", Leaf("s", "", p[1], p[2], 0, 0)>> : p \in Pick(bInj)}
                 \cup {<<ev.seq, "Targeted", Leaf("s", "", a, a, 0, 0)>> : a \in Pick(bPlain)}
  IN /\ viol' = viol \cup {V(cl, ev) : cl \in found}
     /\ subst' = all
     /\ plain' = plain \cup same
     /\ detail' = IF Cardinality(detail) < 200 THEN detail \cup why ELSE detail
     /\ UNCHANGED cfg

Skip == UNCHANGED <<cfg, subst, plain, viol, detail>>

Compare(ev) ==
  /\ pend' = [ready |-> TRUE, items |-> NodeItems(ev.in, ev.out)]
  /\ UNCHANGED <<i, cfg, subst, plain, viol, detail>>

Next ==
  /\ i <= Len(Trace)
  /\ LET ev == Trace[i] IN
       IF ev.ev = "Process" /\ ev.outcome = "ok" /\ ~pend.ready THEN Compare(ev)
       ELSE /\ i' = i + 1
            /\ pend' = NotYet
            /\ CASE ev.ev = "Begin" -> OnBegin(ev)
                 [] ev.ev = "Process" -> OnProcess(ev)
                 [] OTHER -> Skip

Spec == Init /\ [][Next]_vars

\* evaluated in every state; prints the verdict in the last one
Report == i <= Len(Trace) \/ PrintT("OBFOBS-RESULT " \o ToJson([n |-> Len(Trace), viol |-> viol, detail |-> detail]))
=============================================================================
